# property table for tools_manifest.py
add('C19', 'reference-model oracle + canary red zones + bounds-sanitized numba build over a complete finite grid',
    'Every point of the stated finite grid of (length, flags, offset, dtype pair, output length) is executed on the real compiled cumsum in the production build with canaries around both arrays and in the NUMBA_BOUNDSCHECK=1 build; held means held on that grid.',
    'numba bounds checking is trusted to flag every out-of-range index in serial kernels; values avoid overflow', 'DESIGN.md C19')
for _p in ['C01','C02','C03','C04','C05','C06','C07','C08','C09','C10','C11','C12','C13','C14','C15','C16','C17','C18','C20']:
    NOT_APPLICABLE[_p] = 'monitor not built yet (work in progress; planned in DESIGN.md)'
