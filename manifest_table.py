# property table for tools_manifest.py
T = 'numba bounds checking / numpy index checks are trusted to flag out-of-range indices; the JIT compiles the working tree afresh in every process'
add('C04', 'reference-model oracle (exact integer arithmetic) over bit-space sweeps of the real compiled decoders; thorough: all 2^32 RVint words executed',
    'The real unpack_rvint/unpack_pids are executed on complete sweeps of every bit field crossed with complements of the other bits (thorough: every one of the 2^32 RVint words) and compared with an independent integer reference; output-selection modes compared with each other with canaries around supplied outputs. Held = held on those executions.',
    'reference model written from the documented layout; 1 ulp tolerance for pos/vel, 4 ulp(BoxSize) for lagr_pos', 'DESIGN.md C04')
add('C06', 'reference-kernel oracle (floor-based analytic TSC/CIC) vs the real painters; bitwise in an exact-arithmetic regime, error-bounded otherwise; metamorphic roll/additivity/accumulate checks',
    'Hundreds to thousands of paintings by the real tsc_parallel/_tsc_scatter/cic_serial/get_field over adversarial position families, grids, dtypes, offsets and thread/partition settings, each compared cell by cell with an independent kernel. Held = every cell within the stated bound on all executions.',
    'reference kernel and tolerance model in vlib/mas.py; only validator-accepted partitions are used (races are C07)', 'DESIGN.md C06')
add('C07', 'prange region recorder (happens-before race monitor over the interpreted code objects) + acceptance sweep + exact-arithmetic multi-thread vs single-thread differential stress',
    'Every configuration the validator accepts in the sweep is executed with numba.prange replaced by a recorder and the grid by a write-logging array: a cell updated by two iterations of one region is a race under some schedule, decided for all schedules from one execution. Compiled kernels are additionally stressed against the serial result bit for bit. Held = no shared cell in any accepted configuration of the sweep and no differing stress run.',
    'prange iterations of one region are treated as concurrent when nthread>1, regions as barrier-separated; interpreted bodies are the same code objects as the compiled kernels', 'DESIGN.md C07')
add('C14', 'chunking driver over the real compress/decompress with a strict codec double, canary red zones and sys.monitoring branch coverage',
    'Streams written by the real compress() are fed to the real decompress() under every single cut, every pair of cuts, every constant chunk size, inserted empty chunks, exhaustive subsets of prefix-adjacent cut positions (short streams) and random compositions; also end to end through asdf.open with forced IO block sizes. Held = identical bytes/length for every chunking executed, with every reassembly branch observed.',
    'zlib-based stand-in for python-blosc (strict about frame boundaries); only the framing state machine is claimed', 'DESIGN.md C14')
add('C15', 'reference decoder + independent encoder oracle over field sweeps, nibble patterns and header/particle interleavings of the real compiled kernel',
    'Every 12-bit value of each of the six fields, 0x0/0xF nibble patterns, and generated header/particle interleavings are decoded by the real unpack_pack9 in all output modes and both float types and compared with a float64 reference; round trip through an independent encoder within half a quantum.',
    'record layout as documented in the statement; float32 outputs compared at 8 ulp(BoxSize)', 'DESIGN.md C15')
add('C17', 'unique-identity workload + extended-precision membership oracle + poison scan on the real compiled partition_parallel',
    'Calls over N, npartition, coord, dtype, weights, sort and every thread count 1..16; serial numbers in the weights and unused coordinates make permutation, row integrity and weight alignment directly observable; stripe membership against longdouble arithmetic with an explicit 4-ulp tie rule; heap poisoning exposes unwritten rows.',
    'tie rule: within 4 ulp of a stripe boundary either stripe is accepted', 'DESIGN.md C17')
add('C18', 'exhaustive execution of the real decoder on all 65340 codes (direct, shuffled, sub-batched, and through the catalogue column loaders) with orthonormality/handedness/distinctness/coverage oracles',
    'The finite code space is executed completely; coverage of directions is probed with 4M (quick) / 40M (thorough) random plus adversarial directions against a 4 degree bound.',
    'coverage is sampled, the code space is exhaustive', 'DESIGN.md C18')
add('C19', 'reference-model oracle + canary red zones + bounds-sanitized numba build over a complete finite grid',
    'Every point of the stated finite grid of (length, flags, offset, dtype pair, output length) is executed on the real compiled cumsum in the production build with canaries around both arrays and in the NUMBA_BOUNDSCHECK=1 build; held means held on that grid.',
    'numba bounds checking is trusted to flag every out-of-range index in serial kernels; values avoid overflow', 'DESIGN.md C19')
add('C01', 'unique-identity workload + reference decoding oracle + structural invariants + heap-poison scan on the real loader',
    'Generated catalogue trees whose every raw particle word carries its serial number and origin are loaded by the real CompaSOHaloCatalog under hundreds of option combinations; each halo slice of each loaded subsample column is compared with the reference decoding of exactly the raw records the ground truth assigns to that halo; index columns checked for contiguity/order/A-before-B/sum. Held = on every load executed.',
    'generated trees follow the documented file layout; python-blosc replaced by a stand-in for blsc inputs; loads that raise are recorded, not judged here', 'DESIGN.md C01')
add('C02', 'differential monitor on the real loader (column alone / with others / subsets / default vs fields="all"), any exception = violation',
    'Every valid column name is requested alone, with others in both orders, in random subsets and ordered pairs with derived columns, with and without subsamples, cleaned and uncleaned, and compared bit for bit with the fields="all" load of the same files; passthrough subsets as a separate class.',
    'index columns are compared only between loads with the same subsample selection (they are documented to be re-indexed)', 'DESIGN.md C02')
add('C03', 'differential + identity monitor with predetermined per-superslab masks delivered by a recording filter closure',
    'Multi-file loads are compared with the row-wise concatenation of single-file loads, filtered loads with the masked unfiltered load (halo columns bit for bit, particle slices by identity tags), for mask classes all/none/none-in-one-slab/zero-particle/cleaned-away/random; the filter records the columns and N it is shown; documented rejections are checked to raise.',
    'the loader calls the filter once per superslab in file order (asserted)', 'DESIGN.md C03')
add('C05', 'unit-relation reference table against the raw stored arrays under varied (BoxSize, VelZSpace_to_kms); on/off differential; quadrature identity',
    'Each row of each halo column of generated catalogues (box and light-cone layout, cleaned on/off, all-fields and single-column loads) is related to the stored raw value and to its convert_units=False counterpart with the factor of its class; boxes and velocity scales differ by >=3x so a wrong constant cannot hide.',
    'column classification written from the HaloStat documentation; sigman_* only asserted to differ by 1 or BoxSize; *_mainprog treated as stored in final units', 'DESIGN.md C05')
add('C08', 'full-mesh enumeration oracle with unique integer mode tags over the real compiled binning kernels (float64 exact sums), thread-count differential',
    'bin_kmu/bin_kppi/calc_pk_from_deltak/project_3d_to_poles are executed on meshes of distinct integers for odd and even sizes and many edge families; counts and per-bin sums are compared with an enumeration of all n^3 modes through Hermitian symmetry; modes within 4 ulp of an edge may fall on either side but are counted once; counts must be identical for nthread 1..16.',
    'reference enumerates the full mesh with numpy.fft.fftfreq; Legendre sums at 2e-5 (kernel evaluates P_l in float32)', 'DESIGN.md C08')
add('C13', 'metamorphic differential monitor on the real calc_power (permutation, whole-cell translation on an exact dyadic lattice, thread count, cross==auto, particle-independent columns)',
    'Base configurations over TSC/CIC x compensated x interlaced x binnings x mesh sizes (odd and even) x thread counts x field dtype are each followed by their transformed runs; float columns compared at 2e-4 (k_avg 1e-3) of the column maximum, count/range columns exactly.',
    'tolerances calibrated on observed float32 accumulation noise (<=2.2e-5)', 'DESIGN.md C13')
for _p in ['C09','C10','C11','C12','C16','C20']:
    NOT_APPLICABLE[_p] = 'monitor not built yet (work in progress; planned in DESIGN.md)'
