# property table for tools_manifest.py
T = 'numba bounds checking / numpy index checks are trusted to flag out-of-range indices; the JIT compiles the working tree afresh in every process'
add('C04', 'reference-model oracle (exact integer arithmetic) over bit-space sweeps of the real compiled decoders; thorough: all 2^32 RVint words executed',
    'The real unpack_rvint/unpack_pids are executed on complete sweeps of every bit field crossed with complements of the other bits (thorough: every one of the 2^32 RVint words) and compared with an independent integer reference; output-selection modes compared with each other with canaries around supplied outputs. Held = held on those executions.',
    'reference model written from the documented layout; 1 ulp tolerance for pos/vel, 4 ulp(BoxSize) for lagr_pos', 'DESIGN.md C04')
add('C06', 'reference-kernel oracle (floor-based analytic TSC/CIC) vs the real painters; bitwise in an exact-arithmetic regime, error-bounded otherwise; metamorphic roll/additivity/accumulate checks',
    'Hundreds to thousands of paintings by the real tsc_parallel/_tsc_scatter/cic_serial/get_field over adversarial position families, grids, dtypes, offsets and thread/partition settings, each compared cell by cell with an independent kernel. Held = every cell within the stated bound on all executions.',
    'reference kernel and tolerance model in vlib/mas.py; only validator-accepted partitions are used (races are C07)', 'DESIGN.md C06')
add('C07', 'prange region recorder (happens-before race monitor over the interpreted code objects) + acceptance sweep + exact-arithmetic multi-thread vs single-thread differential stress',
    'Every configuration the validator accepts in the sweep is executed with numba.prange replaced by a recorder and the grid by a write-logging array: a cell updated by two iterations of one region is a race under some schedule, decided for all schedules from one execution. Compiled kernels are additionally stressed against the serial result bit for bit. Held = no shared cell in any accepted configuration of the sweep and no differing stress run.',
    'prange iterations of one region are treated as concurrent when nthread>1, regions as barrier-separated; interpreted bodies are the same code objects as the compiled kernels', 'DESIGN.md C07')
add('C14', 'chunking driver over the real compress/decompress with a strict codec double, canary red zones and sys.monitoring branch coverage',
    'Streams written by the real compress() are fed to the real decompress() under every single cut, every pair of cuts, every constant chunk size, inserted empty chunks, exhaustive subsets of prefix-adjacent cut positions (short streams) and random compositions; also end to end through asdf.open with forced IO block sizes. Held = identical bytes/length for every chunking executed, with every reassembly branch observed.',
    'zlib-based stand-in for python-blosc (strict about frame boundaries); only the framing state machine is claimed', 'DESIGN.md C14')
add('C15', 'reference decoder + independent encoder oracle over field sweeps, nibble patterns and header/particle interleavings of the real compiled kernel',
    'Every 12-bit value of each of the six fields, 0x0/0xF nibble patterns, and generated header/particle interleavings are decoded by the real unpack_pack9 in all output modes and both float types and compared with a float64 reference; round trip through an independent encoder within half a quantum.',
    'record layout as documented in the statement; float32 outputs compared at 8 ulp(BoxSize)', 'DESIGN.md C15')
add('C17', 'unique-identity workload + extended-precision membership oracle + poison scan on the real compiled partition_parallel',
    'Calls over N, npartition, coord, dtype, weights, sort and every thread count 1..16; serial numbers in the weights and unused coordinates make permutation, row integrity and weight alignment directly observable; stripe membership against longdouble arithmetic with an explicit 4-ulp tie rule; heap poisoning exposes unwritten rows.',
    'tie rule: within 4 ulp of a stripe boundary either stripe is accepted', 'DESIGN.md C17')
add('C18', 'exhaustive execution of the real decoder on all 65340 codes (direct, shuffled, sub-batched, and through the catalogue column loaders) with orthonormality/handedness/distinctness/coverage oracles',
    'The finite code space is executed completely; coverage of directions is probed with 4M (quick) / 40M (thorough) random plus adversarial directions against a 4 degree bound.',
    'coverage is sampled, the code space is exhaustive', 'DESIGN.md C18')
add('C19', 'reference-model oracle + canary red zones + bounds-sanitized numba build over a complete finite grid',
    'Every point of the stated finite grid of (length, flags, offset, dtype pair, output length) is executed on the real compiled cumsum in the production build with canaries around both arrays and in the NUMBA_BOUNDSCHECK=1 build; held means held on that grid.',
    'numba bounds checking is trusted to flag every out-of-range index in serial kernels; values avoid overflow', 'DESIGN.md C19')
for _p in ['C01','C02','C03','C05','C08','C09','C10','C11','C12','C13','C16','C20']:
    NOT_APPLICABLE[_p] = 'monitor not built yet (work in progress; planned in DESIGN.md)'
