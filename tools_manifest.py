#!/usr/bin/env python3
"""Generates MANIFEST.json from the table below (kept in one place so it is always valid)."""
import json, os
HERE = os.path.dirname(os.path.abspath(__file__))
CHECKS = {}
def add(pid, technique, text, note, design_ref, thorough=True):
    CHECKS[pid] = dict(
        property_id=pid,
        quick_cmd=f'./check {pid} quick',
        **({'thorough_cmd': f'./check {pid} thorough'} if thorough else {}),
        evidence_file=f'/verif/evidence/{pid}.json',
        replay_cmd_template=f'./check {pid} --replay {{path}}',
        engine='vlib',
        level_claimed=dict(category='exploration', text=text, design_ref=design_ref),
        level_note=note,
        technique=technique,
    )
NOT_APPLICABLE = {}
exec(open(os.path.join(HERE, 'manifest_table.py')).read())
man = dict(
    version=1,
    setup_cmd='./setup.sh',
    hooks=dict(
        guard='ABACUSUTILS_VERIF',
        enable='no source hooks: monitors attach from outside (module attribute patching, py_func, NUMBA_BOUNDSCHECK, MALLOC_PERTURB_); ./check exports ABACUSUTILS_VERIF=1 for completeness',
        baseline_off_cmd='cd /repo && /venv/bin/python -m pytest -ra -q -p no:cacheprovider --timeout=900 --continue-on-collection-errors',
        source_commits=[],
        add_only=True,
    ),
    engines=[dict(name='vlib', path='/verif/vlib', serves_properties=sorted(CHECKS), kind_free_text='runtime monitors: reference-model oracles, bounds-sanitized numba build, canaries, heap poisoning, prange region recorder, differential/metamorphic drivers')],
    checks=[CHECKS[k] for k in sorted(CHECKS)],
    notes='See DESIGN.md. Exit 0 held / 1 VIOLATION / 2 INCONCLUSIVE. Known findings: known_findings.txt. Every evidence file also records which statements of the anchored interpreted code the run reached (coverage.statement_reach).',
    not_applicable=[dict(property_id=k, reason=v) for k, v in sorted(NOT_APPLICABLE.items())],
)
json.dump(man, open(os.path.join(HERE, 'MANIFEST.json'), 'w'), indent=1)
try:
    import jsonschema
    jsonschema.validate(man, json.load(open('/root/.vp/MANIFEST.schema.json')))
    print('MANIFEST valid;', len(CHECKS), 'checks,', len(NOT_APPLICABLE), 'not applicable')
except ImportError:
    print('written (jsonschema not importable)')
