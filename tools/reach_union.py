#!/venv/bin/python
"""tools/reach_union.py <dumpdir>: statements of the repository's interpreted code reached by no check at all
(union over the per-check line sets written with VERIF_COVER_DUMP=<dumpdir>), per function."""
import glob, json, os, sys
sys.path.insert(0, '/verif')
from vlib import cover

cover._root = os.path.realpath(os.environ.get('VERIF_REPO', '/repo')) + os.sep
per = {}
for fn in glob.glob(os.path.join(sys.argv[1], 'C*.json')):
    d = json.load(open(fn))
    per[os.path.basename(fn)[:3]] = d
    cover.merge(d)
files = ['abacusnbody/data/compaso_halo_catalog.py', 'abacusnbody/data/bitpacked.py', 'abacusnbody/data/read_abacus.py', 'abacusnbody/data/pack9.py', 'abacusnbody/data/asdf.py', 'abacusnbody/data/pipe_asdf.py',
         'abacusnbody/analysis/tsc.py', 'abacusnbody/analysis/cic.py', 'abacusnbody/analysis/power_spectrum.py', 'abacusnbody/hod/GRAND_HOD.py', 'abacusnbody/hod/abacus_hod.py', 'abacusnbody/hod/menv.py', 'abacusnbody/util.py']
rep = cover.report(files)
for rel, funcs in rep.items():
    for name, r in funcs.items():
        if r['statements'] and r['missed']:
            tag = ' (compiled)' if r['compiled'] else ''
            print(f"{rel}:{name}{tag} {r['reached']}/{r['statements']} missed {r['missed'][:60]}")
