#!/venv/bin/python
"""tools/seedkeep10.py <desc.json>: file the confirmed round-10 changes under seeded/<id>_<S|T>/ from $SEEDBASE/<id>/ (patch_X.diff, demo_X.py,
notes.md, result_X_quick.txt [, result_X_quick_after.txt]).  desc.json: {"C01_S": {"change": ..., "needs": ..., "strengthening": ...}, ...}"""
import json, os, re, shutil, sys

B = os.environ.get('SEEDBASE', '/tmp/r10')
desc = json.load(open(sys.argv[1]))
R = int(os.environ.get('SEEDROUND', 10))
ORIGIN = {10: 'round 10: seeder saw only the property text and its own worktree; S = call history / cooperating sites, T = unusual input, interleaving or fault',
          11: 'round 11: seeder saw only the property text and its own worktree; the change had to manifest only in a valid call made after a failed or rejected one (state left behind by an exception)'}
for key, d in sorted(desc.items()):
    pid, X = key.split('_')
    src = f'{B}/{pid}'
    res = open(f'{src}/result_{X}_quick.txt').read()
    g = lambda pat: (re.search(pat, res) or [None, None])[1]
    tests = g(r'TESTS: (.*)'); dw = g(r'DEMO_WITH_CHANGE rc=(\d+)'); dwo = g(r'DEMO_WITHOUT rc=(\d+)')
    ok = 'APPLY=ok' in res and tests and tests.startswith('30 passed') and dw not in (None, '0') and dwo == '0'
    if not ok:
        print(key, 'NOT CONFIRMED', tests, dw, dwo); continue
    before = g(rf'CHECK {pid} quick rc=(\d+)') == '1'
    after = before
    pa = f'{src}/result_{X}_quick_after.txt'
    if os.path.exists(pa):
        after = (re.search(rf'CHECK {pid} quick rc=(\d+)', open(pa).read()) or [None, None])[1] == '1'
    out = f'/verif/seeded/{key}'
    os.makedirs(out, exist_ok=True)
    shutil.copy(f'{src}/patch_{X}.diff', f'{out}/patch.diff'); shutil.copy(f'{src}/demo_{X}.py', f'{out}/demo.py')
    if os.path.exists(f'{src}/notes.md'): shutil.copy(f'{src}/notes.md', f'{out}/notes_from_seeder.md')
    files = sorted(set(re.findall(r'^\+\+\+ b/(\S+)', open(f'{out}/patch.diff').read(), re.M)))
    meta = {'property': pid, 'variant': X, 'round': R, 'change': d['change'], 'needs_to_manifest': d['needs'], 'files_touched': files,
            'confirmed_in_scratch_worktree': {'patch_applies': True, 'baseline_tests': tests, 'demo_rc_with_change': int(dw), 'demo_rc_without_change': 0},
            'commands_run': [f'tools/seedtest.sh seeded/{key}/patch.diff seeded/{key}/demo.py quick {pid}'],
            'caught_by': [pid] if after else [],
            'caught': (f'by the checks as they stood after round {R - 1}' if before else
                       (f'after strengthening (missed by the checks as they stood after round {R - 1}): ' + d.get('strengthening', '') if after else 'NOT CAUGHT: ' + d.get('strengthening', ''))),
            'origin': ORIGIN[R]}
    json.dump(meta, open(f'{out}/meta.json', 'w'), indent=1)
    print(key, 'kept; before', before, 'after', after)
