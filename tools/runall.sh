#!/bin/bash
# tools/runall.sh [tier] [seed] [ids...]: run checks, print one line per check
TIER="${1:-quick}"; SEED="${2:-0}"; shift 2 2>/dev/null
IDS="${@:-C01 C02 C03 C04 C05 C06 C07 C08 C09 C10 C11 C12 C13 C14 C15 C16 C17 C18 C19 C20}"
cd "$(dirname "$(readlink -f "$0")")/.."
for id in $IDS; do
  s=$(date +%s)
  out=$(VERIF_SEED=$SEED ./check $id $TIER 2>&1); rc=$?
  e=$(( $(date +%s) - s ))
  echo "$id rc=$rc ${e}s :: $(echo "$out" | grep -E "held on|VIOLATION|INCONCLUSIVE|KNOWN-FINDING" | head -3 | cut -c1-170 | tr '\n' '|')"
done
