#!/bin/bash
# tools/seedtest.sh <patch.diff> <demo.py> <tier> <check ids...>
# Confirms a seeded change in a scratch worktree (applies, 30 baseline tests pass, demo fails with / passes without)
# and runs the named checks against the changed copy.  Never touches /repo's working tree.
PATCH="$1"; DEMO="$2"; TIER="$3"; shift 3
D=$(mktemp -d /tmp/verif_seed_XXXXXX)
cleanup() { git -C /repo worktree remove --force "$D/wt" >/dev/null 2>&1; rm -rf "$D"; }
trap cleanup EXIT
git -C /repo worktree add -q --detach "$D/wt" HEAD || { echo "worktree failed"; exit 9; }
if ! git -C "$D/wt" apply "$PATCH" 2>"$D/apply.err"; then echo "APPLY=fail $(head -2 $D/apply.err)"; exit 8; fi
cp /repo/abacusnbody/version.py "$D/wt/abacusnbody/version.py"; cp -r /repo/abacusutils.egg-info "$D/wt/" 2>/dev/null
echo "APPLY=ok files: $(git -C "$D/wt" diff --stat | tail -1)"
PP="/verif/shims:/verif/.deps"
if [ -z "${SKIP_TESTS:-}" ]; then
( cd "$D/wt" && PYTHONPATH="$D/wt:$PP" /venv/bin/python -m pytest -q -p no:cacheprovider tests/test_tsc.py tests/test_util.py -k "not test_multi" 2>&1 | tail -1 | sed 's/^/TESTS: /' )
fi
if [ -n "$DEMO" ] && [ -f "$DEMO" ]; then
  PYTHONPATH="$D/wt:$PP" timeout 600 /venv/bin/python "$DEMO" "$D/wt" >"$D/demo_with.txt" 2>&1; echo "DEMO_WITH_CHANGE rc=$? (expect !=0) :: $(tail -1 $D/demo_with.txt | cut -c1-160)"
  PYTHONPATH="/repo:$PP" timeout 600 /venv/bin/python "$DEMO" /repo >"$D/demo_without.txt" 2>&1; echo "DEMO_WITHOUT rc=$? (expect 0) :: $(tail -1 $D/demo_without.txt | cut -c1-100)"
fi
mkdir -p "$D/replays"
for id in "$@"; do
  s=$(date +%s)
  out=$(cd /verif && VERIF_REPO="$D/wt" VERIF_REPLAY_DIR="$D/replays" VERIF_NO_EVIDENCE=1 ./check $id $TIER 2>&1); rc=$?
  echo "CHECK $id $TIER rc=$rc $(( $(date +%s) - s ))s :: $(echo "$out" | grep -E "mechanism=|held on|INCONCLUSIVE" | head -2 | cut -c1-260 | tr '\n' '|')"
done
