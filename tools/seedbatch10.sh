#!/bin/bash
# tools/seedbatch10.sh <tier> <id> [<id>...] : rounds 10+ variant of seedbatch.sh (patch_<X> for X in $VARIANTS, default "S T", under $SEEDBASE/<id>/), $PAR at a time
TIER="$1"; shift
B=${SEEDBASE:-/tmp/r10}
one() { id=$1; X=$2; P=$B/$id/patch_$X.diff; Dm=$B/$id/demo_$X.py; [ -s "$P" ] || exit 0
  /verif/tools/seedtest.sh "$P" "$Dm" "$TIER" $id > $B/$id/result_${X}_$TIER.txt 2>&1; }
export -f one; export B TIER
for id in "$@"; do for X in ${VARIANTS:-S T}; do echo "$id $X"; done; done | xargs -P ${PAR:-4} -L1 bash -c 'one $0 $1'
for id in "$@"; do for X in ${VARIANTS:-S T}; do [ -f $B/$id/result_${X}_$TIER.txt ] && { echo "== $id $X"; cat $B/$id/result_${X}_$TIER.txt; }; done; done
