#!/bin/bash
# tools/seedbatch.sh <tier> <id> [<id>...] : run seedtest for patch_A and patch_B of each id, own property's check
TIER="$1"; shift
for id in "$@"; do
  for X in A B; do
    P=${SEEDBASE:-/tmp/seeded_out}/$id/patch_$X.diff; Dm=${SEEDBASE:-/tmp/seeded_out}/$id/demo_$X.py
    [ -f "$P" ] || continue
    /verif/tools/seedtest.sh "$P" "$Dm" "$TIER" $id > ${SEEDBASE:-/tmp/seeded_out}/$id/result_${X}_$TIER.txt 2>&1
    echo "== $id $X"; cat ${SEEDBASE:-/tmp/seeded_out}/$id/result_${X}_$TIER.txt
  done
done
