#!/usr/bin/env python3
"""Validate MANIFEST.json and every evidence/<id>.json against the schemas in /root/.vp."""
import json, sys, glob, os
sys.path.insert(0, os.path.join(os.path.dirname(os.path.abspath(__file__)), '..', '.deps'))
import jsonschema
here = os.path.join(os.path.dirname(os.path.abspath(__file__)), '..')
man = json.load(open(os.path.join(here, 'MANIFEST.json')))
jsonschema.validate(man, json.load(open('/root/.vp/MANIFEST.schema.json')))
es = json.load(open('/root/.vp/EVIDENCE.schema.json'))
bad = 0
for c in man['checks']:
    p = os.path.join(here, 'evidence', c['property_id'] + '.json')
    if not os.path.exists(p):
        print('MISSING', p); bad += 1; continue
    e = json.load(open(p))
    try:
        jsonschema.validate(e, es)
        cov = e['coverage']
        print(c['property_id'], e['tier'], 'seed', e['seed'], 'ev', cov['evaluations'], 'nontrivial', cov['distinct_nontrivial'], 'samples', len(cov['samples']), 'viol', e.get('violations'), f"{e['wall_s']}s")
    except Exception as ex:
        print('INVALID', p, str(ex)[:200]); bad += 1
sys.exit(1 if bad else 0)
