#!/venv/bin/python
"""Rewrite the table of seeded/README.md from the meta.json files (the prose around the table is kept)."""
import glob, json, os, re

rows = []
for d in sorted(glob.glob('/verif/seeded/C*_*')):
    m = json.load(open(d + '/meta.json'))
    rows.append(f"| {os.path.basename(d)} | {m['change']} | {m['needs_to_manifest']} | {', '.join(m['caught_by'])} | {m['caught']} |")
p = '/verif/seeded/README.md'
lines = open(p).read().split('\n')
first = next(i for i, l in enumerate(lines) if re.match(r'\| C\d\d_[A-Z] ', l))
last = max(i for i, l in enumerate(lines) if re.match(r'\| C\d\d_[A-Z] ', l))
open(p, 'w').write('\n'.join(lines[:first] + rows + lines[last + 1 :]))
print(len(rows), 'rows')
