#!/bin/bash
# tools/seedsweep.sh <tier> <dir>...: run each seeded change's own check against a scratch copy; one line per change
TIER="$1"; shift
for d in "$@"; do
  id=$(basename $d); pid=${id%%_*}
  r=$(SKIP_TESTS=1 /verif/tools/seedtest.sh /verif/seeded/$id/patch.diff "" $TIER $pid 2>&1 | grep CHECK | cut -c1-200)
  echo "$id :: $r"
done
