#!/bin/bash
# tools/mut.sh <relative file> <python-regex-free old string> <new string> <check id> [tier]
# Self-test helper: copies the package to a scratch dir, applies one textual mutation, runs a check
# against the copy (VERIF_REPO), removes the copy.  Never touches /repo.
set -u
F="$1"; OLD="$2"; NEW="$3"; ID="$4"; TIER="${5:-quick}"
D=$(mktemp -d /tmp/verif_mut_XXXXXX)
trap 'rm -rf "$D"' EXIT
cp -r /repo/abacusnbody "$D/"; cp -r /repo/abacusutils.egg-info "$D/" 2>/dev/null
/venv/bin/python - "$D/$F" "$OLD" "$NEW" <<'PY'
import sys
p,old,new=sys.argv[1:4]
s=open(p).read()
n=s.count(old)
if n==0:
    print("MUTATION TARGET NOT FOUND"); sys.exit(3)
import os
nth=int(os.environ.get("MUT_NTH","0"))
if os.environ.get("MUT_ALL"):
    out=s.replace(old,new)
elif nth:
    parts=s.split(old)
    out=old.join(parts[:nth])+new+old.join(parts[nth:])
else:
    out=s.replace(old,new,1)
open(p,"w").write(out)
print(f"mutated {p}: {n} occurrence(s), first replaced")
PY
[ $? -eq 0 ] || exit 3
cd /verif
mkdir -p "$D/replays"; VERIF_REPO="$D" VERIF_REPLAY_DIR="$D/replays" VERIF_NO_EVIDENCE=1 ./check "$ID" "$TIER" 2>&1 | grep -v "^  mechanism" | tail -${MUT_TAIL:-4}
echo "exit=${PIPESTATUS[0]}"
