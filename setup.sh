#!/bin/bash
# Offline setup: third-party packages the repo's optional modules need (scipy) and the contract
# library, from the local wheelhouse into /verif/.deps (git-ignored).  Idempotent.
set -e
HERE="$(cd "$(dirname "${BASH_SOURCE[0]}")" && pwd)"
cd "$HERE"
if [ -d .deps/scipy ] && [ -d .deps/icontract ] && [ -d .deps/jsonschema ]; then
    echo "deps present"; exit 0
fi
rm -rf .deps.tmp; mkdir -p .deps.tmp
PIP_NO_INDEX=1 /venv/bin/pip install --quiet --no-index --find-links /opt/veriftools/wheels --no-deps \
    --target "$HERE/.deps.tmp" scipy icontract asttokens six jsonschema referencing rpds_py jsonschema_specifications
rm -rf .deps; mv .deps.tmp .deps
echo "deps installed"
