"""Test double for python-blosc (not installable offline).  NOT repo code.

Same call surface abacusnbody.data.asdf uses.  A frame is a 16-byte header
(magic, nbytes, cbytes, typesize) followed by a zlib body.  decompress_ptr is
deliberately strict: the buffer handed in must be *exactly* one frame (length ==
cbytes from the header, magic right, zlib stream intact and of the declared
size), so that every mis-framed call made by the reassembly state machine in
BloscCompressor.decompress is an exception instead of silent garbage.
"""
import ctypes
import struct
import zlib

NOSHUFFLE, SHUFFLE, BITSHUFFLE = 0, 1, 2
_MAGIC = b'BLSH'
_HDR = struct.Struct('<4sIII')

calls = {'compress': 0, 'decompress_ptr': 0}


class BloscShimError(Exception):
    pass


def set_nthreads(n):
    return 1


def set_blocksize(n):
    return None


def compress(data, typesize=8, clevel=1, shuffle=SHUFFLE, cname='zstd', **kw):
    raw = data if isinstance(data, bytes) else memoryview(data).tobytes()
    body = zlib.compress(raw, 1)
    calls['compress'] += 1
    return _HDR.pack(_MAGIC, len(raw), _HDR.size + len(body), int(typesize)) + body


def _parse(frame):
    frame = bytes(frame)
    if len(frame) < _HDR.size:
        raise BloscShimError(f'frame shorter than header: {len(frame)}')
    magic, nbytes, cbytes, typesize = _HDR.unpack(frame[: _HDR.size])
    if magic != _MAGIC:
        raise BloscShimError(f'bad magic {magic!r}')
    if cbytes != len(frame):
        raise BloscShimError(f'frame length {len(frame)} != header cbytes {cbytes}')
    try:
        raw = zlib.decompress(frame[_HDR.size :])
    except zlib.error as e:
        raise BloscShimError(f'damaged body: {e}')
    if len(raw) != nbytes:
        raise BloscShimError(f'body size {len(raw)} != header nbytes {nbytes}')
    return raw


def decompress(frame, as_bytearray=False):
    raw = _parse(frame)
    return bytearray(raw) if as_bytearray else raw


def decompress_ptr(frame, address, **kw):
    raw = _parse(memoryview(frame).cast('B'))
    calls['decompress_ptr'] += 1
    ctypes.memmove(address, raw, len(raw))
    return len(raw)
