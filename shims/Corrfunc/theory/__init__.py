def _ni(*a, **k):
    raise NotImplementedError('Corrfunc is not available in this sandbox')
wp = xirppi = DDrppi = DDsmu = xi = DD = _ni
