"""Import-time stand-in for Corrfunc (not installable offline). NOT repo code."""
