"""Import-time stand-in for parallel_numpy_rng (not installable offline). NOT repo code."""
import numpy as np


class MTGenerator:
    def __init__(self, bitgen, nthread=1):
        self._rng = np.random.Generator(bitgen) if not isinstance(bitgen, np.random.Generator) else bitgen
        self.nthread = nthread

    def random(self, size=None, nthread=None, dtype=np.float64, **kw):
        return self._rng.random(size=size, dtype=dtype)

    def standard_normal(self, size=None, nthread=None, dtype=np.float64, **kw):
        return self._rng.standard_normal(size=size, dtype=dtype)
