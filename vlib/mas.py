"""Reference mass-assignment kernels (floor-based, vectorised; structurally different from the
round-to-nearest + right-wrap code under test) and the prange region recorder (race monitor)."""

import types

import numpy as np


def _W_tsc(s):
    a = np.abs(s)
    return np.where(a < 0.5, 0.75 - s * s, np.where(a < 1.5, 0.5 * (1.5 - a) ** 2, 0.0))


def _W_cic(s):
    a = np.abs(s)
    return np.where(a < 1.0, 1.0 - a, 0.0)


def ref_paint(pos, shape, box, weights=None, offset=0.0, kind='tsc', absw=False):
    """float64 reference grid.  Cell i of an axis with g cells is centred at i*box/g; particle at
    grid coordinate p=(x+offset)*g/box deposits W(p-i) into every cell i within the kernel support,
    indices taken modulo g."""
    pos = np.asarray(pos, dtype=np.float64)
    N = len(pos)
    grid = np.zeros(shape, dtype=np.float64)
    if N == 0:
        return grid
    w = np.ones(N) if weights is None else np.asarray(weights, dtype=np.float64)
    if absw:
        w = np.abs(w)
    Wf = _W_tsc if kind == 'tsc' else _W_cic
    ncell = 4 if kind == 'tsc' else 3
    idx = []
    wts = []
    for ax in range(3):
        g = shape[ax]
        p = (pos[:, ax] + offset) * (g / box)
        base = np.floor(p).astype(np.int64) - (1 if kind == 'tsc' else 0)
        ii = base[:, None] + np.arange(ncell)[None, :]
        ww = Wf(p[:, None] - ii)
        idx.append(np.mod(ii, g))
        wts.append(ww)
    for a in range(ncell):
        for b in range(ncell):
            for c in range(ncell):
                val = wts[0][:, a] * wts[1][:, b] * wts[2][:, c] * w
                np.add.at(grid, (idx[0][:, a], idx[1][:, b], idx[2][:, c]), val)
    return grid


def dilate(A):
    out = np.zeros_like(A)
    for dx in (-1, 0, 1):
        for dy in (-1, 0, 1):
            for dz in (-1, 0, 1):
                out += np.roll(A, (dx, dy, dz), axis=(0, 1, 2))
    return out


# ---------------------------------------------------------------------------------------------
# prange region recorder


class RegionRecorder:
    """Stands in for numba.prange inside an interpreted parallel kernel: iterations of one region are
    mutually unordered (concurrent), successive regions are separated by a barrier."""

    def __init__(self):
        self.region = -1
        self.iteration = None
        self.regions = []  # per region: dict cell -> {iteration: (nwrites, any_nonzero)}

    def prange(self, *args):
        self.region += 1
        self.regions.append({})
        try:
            for i in range(*args):
                self.iteration = i
                yield i
        finally:
            self.iteration = None

    def write(self, cell, delta):
        if self.iteration is None:
            return
        d = self.regions[self.region].setdefault(cell, {})
        n, nz = d.get(self.iteration, (0, False))
        d[self.iteration] = (n + 1, nz or (delta != 0))

    def conflicts(self):
        """cells updated by two different iterations of the same region."""
        out = []
        for r, cells in enumerate(self.regions):
            for cell, its in cells.items():
                if len(its) > 1:
                    out.append(dict(region=r, cell=[c if isinstance(c, str) else int(c) for c in cell], iterations=sorted(int(i) for i in its), nonzero={int(i): bool(v[1]) for i, v in its.items()}))
        return out

    def stats(self):
        return dict(regions=len(self.regions), cells=sum(len(c) for c in self.regions), iterations=sum(len({i for its in c.values() for i in its}) for c in self.regions))


class RecGrid:
    """ndarray stand-in that logs every read-modify-write (cell, addend) to the recorder."""

    def __init__(self, arr, rec):
        self.arr = arr
        self.rec = rec
        self.ndim = arr.ndim
        self.shape = arr.shape
        self.dtype = arr.dtype

    def _norm(self, idx):
        out = []
        for i, n in zip(idx, self.shape):
            i = int(i)
            if i < -n or i >= n:
                raise IndexError(f'index {i} out of bounds for axis of size {n}')
            out.append(i + n if i < 0 else i)
        return tuple(out)

    def __getitem__(self, idx):
        return self.arr[self._norm(idx)]

    def __setitem__(self, idx, val):
        c = self._norm(idx)
        self.rec.write(c, val - self.arr[c])
        self.arr[c] = val


class _NumbaProxy:
    def __init__(self, real, rec):
        self._real = real
        self._rec = rec

    def __getattr__(self, name):
        if name == 'prange':
            return self._rec.prange
        return getattr(self._real, name)


def rebind(pyfunc, **overrides):
    """The same code object bound to a copy of its globals with some names replaced."""
    g = dict(pyfunc.__globals__)
    g.update(overrides)
    f = types.FunctionType(pyfunc.__code__, g, pyfunc.__name__, pyfunc.__defaults__, pyfunc.__closure__)
    f.__kwdefaults__ = pyfunc.__kwdefaults__
    return f


class TscRaceMonitor:
    """Patches tsc._tsc_parallel with its own interpreted body (same code object), where
    numba.prange is the region recorder and _tsc_scatter is its interpreted body writing through a
    RecGrid.  Everything else in tsc_parallel (partition choice, validation, wrap, compiled
    partition_parallel) runs unmodified."""

    def __init__(self, tsc_module):
        import numba

        self.tsc = tsc_module
        self.numba = numba
        self.orig = tsc_module._tsc_parallel
        self.rec = None
        self.last_starts = None
        scatter_py = tsc_module._tsc_scatter.py_func
        rightwrap = tsc_module._rightwrap.py_func
        self.scatter = rebind(scatter_py, _rightwrap=rightwrap)

    def __enter__(self):
        mon = self

        def patched(ppart, starts, dens, box, weights, offset):
            mon.rec = RegionRecorder()
            # what decides concurrency is the thread count in force when the deposit kernel is entered,
            # not the one the caller asked for
            mon.effective_threads = mon.numba.get_num_threads()
            mon.last_starts = np.array(starts)
            mon.last_ppart = ppart
            grid = RecGrid(dens, mon.rec)
            body = rebind(mon.orig.py_func, numba=_NumbaProxy(mon.numba, mon.rec), _tsc_scatter=mon.scatter)
            with np.errstate(all='ignore'):
                return body(ppart, starts, grid, box, weights, offset)

        self.tsc._tsc_parallel = patched
        return self

    def __exit__(self, *a):
        self.tsc._tsc_parallel = self.orig
