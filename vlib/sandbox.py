"""Crash-capturing batch runner: hazardous cases run in child processes (optionally with a
bounds-sanitized numba build), results streamed back through a JSONL file so that a crash
(SIGSEGV, glibc abort) is attributed to the case that was running."""

import importlib
import json
import os
import pickle
import subprocess
import sys
import tempfile
import time

SANITIZE_ENV = {'NUMBA_BOUNDSCHECK': '1', 'NUMBA_NUM_THREADS': '1'}


def is_index_error(e):
    """True if e is, or is caused by, an out-of-bounds index error (numba boundscheck raises
    IndexError from serial kernels and SystemError-from-IndexError out of parallel ones)."""
    seen = 0
    while e is not None and seen < 10:
        if isinstance(e, IndexError):
            return True
        e = e.__cause__ or e.__context__
        seen += 1
    return False


def run_batch(func, cases, env=None, timeout=600, label='batch', poison=True, max_restarts=50):
    """func: 'module:function' taking (case) and returning a JSON-able dict.
    Returns list of dict per case: {'status': 'ok', 'result':...} | {'status':'exception','etype','msg','index_error'}
    | {'status':'crash','returncode','stderr'} | {'status':'timeout'}"""
    results = [None] * len(cases)
    start = 0
    restarts = 0
    tmpdir = tempfile.mkdtemp(prefix='verif_sb_')
    try:
        while start < len(cases) and restarts <= max_restarts:
            inp = os.path.join(tmpdir, f'in_{start}.pkl')
            out = os.path.join(tmpdir, f'out_{start}.jsonl')
            with open(inp, 'wb') as f:
                pickle.dump({'func': func, 'cases': cases[start:], 'offset': start}, f)
            e = dict(os.environ)
            if poison:
                e['MALLOC_PERTURB_'] = '165'
            if env:
                e.update(env)
            e['NUMBA_CACHE_DIR'] = os.path.join(tmpdir, 'nbcache')
            t0 = time.time()
            try:
                p = subprocess.run([sys.executable, '-m', 'vlib.sandbox', inp, out], env=e, timeout=timeout, capture_output=True, text=True)
                rc, err = p.returncode, (p.stderr or '')[-1500:]
                timed_out = False
            except subprocess.TimeoutExpired as te:
                rc, err, timed_out = None, str(te)[-300:], True
            last_started = None
            if os.path.exists(out):
                for line in open(out):
                    try:
                        rec = json.loads(line)
                    except Exception:
                        continue
                    if rec.get('ev') == 'cover':
                        from . import cover

                        cover.merge(rec['lines'])
                    elif rec.get('ev') == 'start':
                        last_started = rec['i']
                    elif rec.get('ev') == 'done':
                        results[rec['i']] = rec['res']
                        if last_started == rec['i']:
                            last_started = None
            if timed_out:
                i = last_started if last_started is not None else start
                results[i] = {'status': 'timeout', 'msg': err}
                start = i + 1
                restarts += 1
                continue
            if rc == 0 and last_started is None:
                break
            # crash (or non-zero exit) while a case was running
            i = last_started if last_started is not None else start
            if results[i] is None:
                results[i] = {'status': 'crash', 'returncode': rc, 'stderr': err}
            start = i + 1
            restarts += 1
        for i, r in enumerate(results):
            if r is None:
                results[i] = {'status': 'notrun'}
        return results
    finally:
        import shutil

        shutil.rmtree(tmpdir, ignore_errors=True)


def _child(inp, out):
    job = pickle.load(open(inp, 'rb'))
    modname, fname = job['func'].split(':')
    f = open(out, 'a')

    def emit(rec):
        f.write(json.dumps(rec) + '\n')
        f.flush()

    from . import cover

    cover.start(os.environ.get('VERIF_REPO', '/repo'))
    mod = importlib.import_module(modname)
    fn = getattr(mod, fname)
    from .core import jsonable

    for k, case in enumerate(job['cases']):
        i = job['offset'] + k
        emit({'ev': 'start', 'i': i})
        try:
            res = {'status': 'ok', 'result': jsonable(fn(case))}
        except BaseException as e:  # noqa
            if isinstance(e, KeyboardInterrupt):
                raise
            import traceback

            res = {
                'status': 'exception',
                'etype': type(e).__name__,
                'msg': str(e)[:500],
                'index_error': is_index_error(e),
                'tb': ''.join(traceback.format_exception(type(e), e, e.__traceback__))[-1200:],
            }
        emit({'ev': 'done', 'i': i, 'res': res})
        if k % 50 == 49 or k == len(job['cases']) - 1:
            emit({'ev': 'cover', 'lines': cover.dump()})
    f.close()


if __name__ == '__main__':
    _child(sys.argv[1], sys.argv[2])
