"""C11 — compiled kernels never access memory outside their arrays.

Three observers over a kernel x boundary-class table (vlib/c11_cases.py), each in its own child
processes: S1 bounds-sanitized compiled build on one thread; S2 interpreted py_func of the parallel
kernels with logical thread counts 1..16 (callees compiled+sanitized on the main thread);
S3 production build with all threads, canary red zones and crash capture.  Every sanitized process
first proves that the sanitizer fires (serial / callee / prange-iteration OOB self-test)."""

import concurrent.futures as cf

import numpy as np

from .. import sandbox

LEVEL = 'exploration'
RULE = (
    'kernel x boundary-class table: cumsum, unpack_rvint/pids/pack9 (N=0,1, header-only / header-less streams, supplied outputs of exactly N rows), subsample zipper via catalogue loads '
    '(empty superslab, zero-particle halos, everything filtered, cleaned-away), tsc_parallel/_tsc_scatter/cic_serial/partition_parallel (N=0,1, positions 0 / box-ulp / box, grid axes of length 3 '
    'and a one-cell-thick z axis, every accepted npartition incl. odd ones with one thread, offsets +-1/2 cell), bin_kmu/bin_kppi (ranges ending below the largest |k|, k_par beyond pimax, single bin, '
    'n=2,3), linear_interp/expand_poles_to_3d (x at and just inside both ends, 2-point tables), P_n (l<=10), Fourier helpers (odd/even n), gen_cent/gen_sats/fast_concatenate (0 hosts, hosts<threads), '
    'getPointsOnSphere/compute_fast_NFW/gen_sats_nfw (0 or fewer satellites than threads), _searchsorted_parallel. A case = one kernel call under one observer. '
    'non-trivial = distinct (observer, kernel, boundary class, thread count) executed to completion'
)
RULE += ' Added after seeded round 10: the same positions array deposited a second time after an in-place shift by +-0.999 box (call history of tsc_parallel).'
ASSUMPTIONS = [
    'NUMBA_BOUNDSCHECK reports a failed check only from the master thread: compiled sanitized runs use one thread; thread-count dependent index arithmetic is checked interpreted (numpy index checks)',
    'negative indices that wrap legally (periodic -1 of TSC/CIC) are not errors in numba nor numpy',
    'inputs violating documented preconditions (positions outside [0,box] with wrap off, mu edges not ending at 1, NFW_draw shorter than the satellites) are not generated',
]

GROUPS = ('small', 'mas', 'power', 'hod')


def cases(quick, seed):
    C = []

    def add(group, kernel, modes='S1 S2 S3', **kw):
        C.append((group, modes.split(), dict(kernel=kernel, seed=seed + len(C), **kw)))

    # ---- small serial kernels
    for N in (0, 1, 2, 5):
        add('small', 'cumsum', 'S1 S3', N=N)
        add('small', 'rvint', 'S1 S3', N=N)
        add('small', 'pids', 'S1 S3', N=N)
    for kind in ('empty', 'header_only', 'headerless', 'normal', 'header_last'):
        add('small', 'pack9', 'S1 S3', kind=kind)
    for kind in ('empty_superslab', 'all_empty', 'zero_particle', 'cleaned_away', 'no_gaps_no_trailing'):
        add('small', 'catalog', 'S1 S3', kind=kind)
    # ---- mass assignment
    shapes = [(3, 3, 3), (5, 4, 3), (8, 8, 8), (12, 12, 1), (4, 4, 1), (16, 3, 5)]
    poskinds = ['zero', 'below_box', 'box', 'mixed_edges', 'random']
    k = 0
    for shape in shapes:
        for pk in poskinds:
            for N in ((0, 1, 40) if not quick else (1, 40)):
                k += 1
                dtype = ['f4', 'f8'][k % 2]
                off = [0.0, 0.5, -0.5][k % 3]
                add('mas', 'tsc', 'S1 S3', shape=shape, box=[1.0, 123.0][k % 2], N=N, pos=pk, dtype=dtype, nthread=1, npartition=None, offset_cells=off, weights=bool(k % 2))
                add('mas', 'scatter', 'S1 S3', shape=shape, box=123.0, N=N, pos=pk, dtype=dtype, offset_cells=off)
                add('mas', 'cic', 'S1 S3', shape=shape, box=123.0, N=N, pos=pk, dtype=dtype, weights=bool(k % 2))
    # every npartition accepted with one thread (incl. odd ones), and threaded ones
    for n1d in (3, 4, 8, 12, 16):
        for npart in range(1, n1d + 1):
            add('mas', 'tsc', 'S1 S2 S3', shape=(n1d, 4, 4), box=123.0, N=30, pos='random', dtype='f4', nthread=1, npartition=npart, offset_cells=0.0, coord=0)
    for n1d, nthread in ((16, 2), (16, 4), (32, 16), (24, 3), (8, 16), (5, 7)):
        for npart in (None, 2, 4, 6, 8):
            for pk in ('random', 'mixed_edges'):
                add('mas', 'tsc', 'S2 S3', shape=(n1d, 4, 5), box=123.0, N=60, pos=pk, dtype='f4', nthread=nthread, npartition=npart, offset_cells=0.5, coord=0, sort=bool(npart and npart % 4 == 0), weights=True)
    for N in (0, 1, 3, 17, 100):
        for nthread in (1, 2, 3, 16):
            for npart in (1, 2, 7, 64):
                for pk in ('random', 'mixed_edges'):
                    add('mas', 'partition', 'S1 S2 S3' if nthread == 1 else 'S2 S3', N=N, box=123.0, npartition=npart, nthread=nthread, pos=pk, dtype=['f4', 'f8'][N % 2], weights=bool(N % 2), sort=bool(npart % 2), coord=N % 3)
    # ---- power spectrum
    for n in (2, 3, 4, 5, 8):
        edge_sets = {
            'below_max': [0.0, 0.4 * n / 2, 0.8 * n / 2],
            'single_bin': [0.3, 0.45 * n],
            'beyond_all': [0.0, n, 2.0 * n],
            'starts_high': [0.6 * n / 2, 0.9 * n / 2, 1.2 * n / 2],
            'nyquist': [0.0, n / 4, n / 2],
        }
        for ename, ke in edge_sets.items():
            for nthread in (1, 2, 3, 16):
                modes = 'S1 S2 S3' if nthread == 1 else 'S2 S3'
                add('power', 'binkmu', modes, n=n, L=100.0, kedges_kf=ke, Nmu=[1, 3, 5][n % 3], poles=[0, 2, 4] if n % 2 else [], nthread=nthread, edges=ename, config_space=(ename == 'below_max'))
                for pim, pname in ((0.5 * n / 2, 'pimax_below_nyq'), (n / 2, 'pimax_at_nyq'), (1.4 * n / 2, 'pimax_above_nyq'), (0.3, 'pimax_below_first_mode')):
                    add('power', 'binkppi', modes, n=n, L=100.0, kedges_kf=ke, pimax_kf=pim, Npi=[1, 2, 5][n % 3], nthread=nthread, edges=ename, pimax=pname)
    for npts in (2, 3, 10, 101):
        for dt in ('f4', 'f8'):
            for x0, x1 in ((0.0, 1.0), (0.01, 3.3), (1e-3, 0.7), (5.0, 123.456)):
                add('power', 'interp', 'S1 S3', npts=npts, x0=x0, x1=x1, dtype=dt)
    for n in (2, 3, 4, 7):
        for npts, k0, k1 in ((2, 0.5, 1.0), (2, 0.0, 10.0), (5, 0.0, 0.9 * n), (50, 0.1, 1.8 * n)):
            for pl in ([0, 2, 4], [0, 4], [2], [4, 2], [0]):
                add('power', 'expand', 'S1 S2 S3' if pl == [0, 2, 4] else 'S1 S3', n=n, L=100.0, npts=npts, k0_kf=k0, k1_kf=k1, poles=pl)
    add('power', 'pn', 'S1 S3')
    for n in (2, 3, 4, 5, 8):
        for nthread in (1, 4):
            add('power', 'fields', 'S1 S2 S3' if nthread == 1 else 'S2 S3', n=n, L=50.0, nthread=nthread)
    for n, paste, inter in ((4, 'TSC', False), (8, 'TSC', True), (5, 'CIC', True), (8, 'CIC', False), (16, 'TSC', True)):
        for nthread in (1, 16):
            add('power', 'calcpower', 'S1 S3' if nthread == 1 else 'S3', n=n, L=80.0, N=50, paste=paste, interlaced=inter, nthread=nthread, kbins=3, mubins=2, poles=[0, 2], kmax_kf=None)
            add('power', 'calcpower', 'S1 S3' if nthread == 1 else 'S3', n=n, L=80.0, N=1, paste=paste, interlaced=inter, nthread=nthread, kbins=None, kmax_kf=0.9 * n)
    # ---- HOD
    for H, P in ((0, 0), (1, 0), (1, 3), (2, 5), (7, 20), (16, 40), (17, 3), (120, 300)):
        for nt in (1, 2, 3, 8, 16):
            modes = 'S1 S2 S3' if nt == 1 else 'S2 S3'
            if H > 60 and nt not in (1, 16):
                continue
            add('hod', 'hod', modes, H=H, P=P, Nthread=nt, origin=bool(H % 2), rsd=True, ranks=bool(P % 2), zero_weights=bool(nt % 2))
    for N1, N2 in ((0, 0), (0, 3), (3, 0), (1, 1), (1, 50), (50, 1), (5, 7)):
        for nt in (1, 2, 3, 16):
            add('hod', 'concat', 'S1 S2 S3' if nt == 1 else 'S2 S3', N1=N1, N2=N2, Nthread=nt)
    for npnt in (0, 1, 3, 7, 16, 100):
        for nt in (1, 2, 4, 8, 16):
            add('hod', 'sphere', 'S1 S2 S3' if nt == 1 else 'S2 S3', nPoints=npnt, Nthread=nt, seeded=bool(npnt % 2))
    for H in (1, 5, 40):
        for nt in (1, 4, 16):
            for no_sats in (True, False):
                add('hod', 'nfw', 'S1 S2 S3' if nt == 1 else 'S2 S3', H=H, P=0, Nthread=nt, no_sats=no_sats)
    for N, Q in ((0, 0), (1, 0), (5, 1), (1, 40), (100, 300)):
        for nt in (1, 16):
            add('hod', 'searchsorted', 'S1 S2 S3' if nt == 1 else 'S2 S3', N=N, Q=Q, Nthread=nt)
    # ---- call history (appended last so that the seeds of the cases above do not move): the same positions array painted again
    # onto the same grid after the caller shifted it in place by just under one box (still inside what wrap=True accepts)
    for shape, nthread, npart in (((8, 8, 8), 1, None), ((16, 4, 5), 1, 4), ((16, 4, 5), 4, None), ((16, 4, 5), 2, 4), ((32, 4, 4), 16, None), ((12, 12, 1), 3, None), ((5, 4, 3), 1, None)):
        for dtype in ('f4', 'f8'):
            for shift in (-0.999, 0.999):
                add('mas', 'tsc', 'S1 S2 S3' if nthread == 1 else 'S2 S3', shape=shape, box=[1.0, 123.0][dtype == 'f4'], N=60, pos='random', dtype=dtype, nthread=nthread, npartition=npart, offset_cells=0.0, coord=0, weights=(shift > 0), repaint_shift=shift)
    return C


def classify(case, what):
    k = case['kernel']
    if k in ('tsc', 'scatter', 'cic') and tuple(case.get('shape', (0, 0, 0)))[2] == 1 and k != 'cic':
        return 'tsc-one-cell-thick-grid'
    if k == 'tsc' and case.get('npartition') and case['npartition'] % 2 == 1 and case['npartition'] > 1 and case.get('nthread') == 1:
        return 'tsc-odd-npartition-one-thread'
    if k in ('sphere', 'nfw'):
        return 'points-on-sphere-hstart-short' if k == 'sphere' or what != 'canary' else 'nfw-' + what
    if k == 'interp':
        return 'linear-interp-' + what
    return f'{k}-{what}'


ENV = {
    'S1': dict(NUMBA_BOUNDSCHECK='1', NUMBA_NUM_THREADS='1', VERIF_OBS='S1'),
    'S2': dict(NUMBA_BOUNDSCHECK='1', VERIF_OBS='S2'),
    'S3': dict(VERIF_OBS='S3'),
}


def check(run):
    C = cases(run.quick, run.seed * 100000)
    jobs = []
    for mode in ('S1', 'S2', 'S3'):
        for g in GROUPS:
            lst = [dict(c, _mode=mode) for (gg, modes, c) in C if gg == g and mode in modes]
            if not run.quick and mode != 'S2':
                # thorough: repeat each class with fresh seeds
                lst = [dict(c, seed=c['seed'] + 7919 * r) for r in range(6) for c in lst]
            if lst:
                jobs.append((mode, g, [dict(kernel='selftest')] + lst))

    # adversarial heap fill: kernels that consult never-written scratch arrays behave according to what the heap holds;
    # MALLOC_PERTURB_=254/253/252 makes fresh blocks read as 1/2/3 (the keep codes of the HOD passes) instead of 0x5A
    for fill, perturb in ((1, '254'), (2, '253'), (3, '252')):
        lst = [dict(c, _mode='S1') for (gg, modes, c) in C if gg == 'hod' and 'S1' in modes and c['kernel'] in ('hod', 'nfw')]
        jobs.append(('S1', f'hod-heapfill{fill}', [dict(kernel='selftest')] + lst, dict(ENV['S1'], MALLOC_PERTURB_=perturb)))

    def work(job):
        mode, g, lst = job[:3]
        env = job[3] if len(job) > 3 else ENV[mode]
        return job, sandbox.run_batch('vlib.c11_cases:run_case', lst, env=env, timeout=3000, label=f'{mode}-{g}')

    with cf.ThreadPoolExecutor(8) as ex:
        results = list(ex.map(work, jobs))
    for job, res in results:
        mode, g, lst = job[:3]
        st = res[0]
        ok_self = st['status'] == 'ok' and (mode == 'S3' or all(v == 'index_error' for v in st['result'].values()))
        run.extra.setdefault('sanitizer_self_test', {})[f'{mode}-{g}'] = st.get('result', st.get('status'))
        if mode != 'S3' and not ok_self:
            run.note_inconclusive(f'sanitizer self-test silent in {mode}-{g}: {st}')
            continue
        for case, r in zip(lst[1:], res[1:]):
            run.ev()
            run.count(f'{mode}_cases')
            key = (mode, case['kernel'], tuple(sorted((k, repr(v)) for k, v in case.items() if k not in ('seed', '_mode'))))
            wit = dict(observer=mode, case={k: v for k, v in case.items() if k != '_mode'})
            if r['status'] == 'ok':
                run.nt(key)
                rr = r['result']
                if rr.get('rejected'):
                    run.count('rejected_by_validation')
                if rr.get('canary_ok') is False:
                    run.violation(classify(case, 'canary'), dict(wit, observation='canary red zone damaged / output outside the documented rows written'))
                elif mode == 'S3' and 'mass' in rr and abs(rr['mass'] - rr['expected_mass']) > 1e-5 * max(1.0, rr['expected_mass']) and not rr.get('rejected'):
                    # deposit went missing without a canary hit: recorded (a symptom, not itself an OOB observation)
                    run.count('S3_mass_mismatch_without_canary')
            elif r['status'] == 'exception':
                if r.get('index_error'):
                    run.violation(classify(case, 'index-error'), dict(wit, error=r['msg'][:200], where=r.get('tb', '')[-400:]))
                else:
                    run.count(f'{mode}_other_exceptions')
                    run.extra.setdefault('other_exceptions', [])
                    if len(run.extra['other_exceptions']) < 12:
                        run.extra['other_exceptions'].append(dict(observer=mode, kernel=case['kernel'], error=f"{r['etype']}: {r['msg']}"[:200], case={k: v for k, v in case.items() if k != '_mode'}))
            elif r['status'] == 'crash':
                run.violation(classify(case, 'crash'), dict(wit, returncode=r['returncode'], stderr=r['stderr'][-300:]))
            elif r['status'] == 'timeout':
                run.note_inconclusive(f'{mode} {case["kernel"]} timed out')
            else:
                run.count(f'{mode}_notrun')
    sam = [c for (_, _, c) in C]
    for i in (0, len(sam) // 3, 2 * len(sam) // 3, len(sam) - 1):
        run.sample(sam[i])
    tot = sum(run.counters.get(f'{m}_cases', 0) for m in ('S1', 'S2', 'S3'))
    oth = sum(run.counters.get(f'{m}_other_exceptions', 0) for m in ('S1', 'S2', 'S3'))
    if oth > 0.2 * max(tot, 1):
        run.note_inconclusive(f'{oth} of {tot} kernel cases ended in a non-index exception (harness/interpreter gap)')


def replay(run, data):
    w = data['witness']
    mode = w['observer']
    res = sandbox.run_batch('vlib.c11_cases:run_case', [dict(kernel='selftest'), w['case']], env=ENV[mode], timeout=1200)
    run.nt('r1')
    run.nt('r2')
    run.ev()
    r = res[1]
    if r['status'] == 'exception' and r.get('index_error'):
        run.violation(classify(w['case'], 'index-error'), dict(w, error=r['msg'][:200]))
    elif r['status'] == 'crash':
        run.violation(classify(w['case'], 'crash'), dict(w, returncode=r['returncode']))
    elif r['status'] == 'ok' and r['result'].get('canary_ok') is False:
        run.violation(classify(w['case'], 'canary'), w)
