"""C07 — parallel TSC equals serial TSC under every thread schedule.

Monitor 1 (deciding, schedule-independent): prange region recorder.  The real tsc_parallel runs;
only the innermost _tsc_parallel/_tsc_scatter run interpreted (same code objects) with numba.prange
replaced by a recorder and the grid by a write-logging array.  Two iterations of one prange region
are unordered, so a grid cell read-modify-written by two of them is a data race under *some*
schedule; the monitor reports exactly that, from a single execution.
Monitor 2: exact-arithmetic differential stress of the compiled kernels (multi-thread vs 1 thread,
bit-for-bit; all sums exactly representable).
Monitor 3: acceptance sweep — every configuration the validator accepts goes through monitor 1
with adversarial particles on the stripe boundaries."""

import warnings

import numpy as np

from .. import core, mas

LEVEL = 'exploration'
RULE = (
    'configurations (n1d, nthread, npartition default|explicit, coord, sort, offset 0|half cell, box, dtype) offered to the real tsc_parallel; '
    'rejected ones recorded; every accepted one with nthread>1 is executed under the prange region recorder with particles placed on and +-1,2 ulp around '
    'every stripe boundary (shared transverse cell) plus random ones. non-trivial = distinct accepted configurations with >=2 concurrent stripes in a region '
    '(npartition>=4, nthread>1). Stress: compiled multi-thread vs single-thread, exact arithmetic, bitwise.'
)
RULE += (
    ' Added after seeded round 9: wrap=True with out-of-box particles in column-major and strided position arrays.'
)
RULE += (
    ' Added after seeded round 10: call history on anisotropic grids -- sequences of consecutive tsc_parallel calls in one process that keep the grid shape, nthread and the '
    'npartition argument (default or a user value valid for the long axis only) and change the partition axis (coord) between axes of different lengths (long axis first and '
    'revisited, occasionally a transposed shape / other nthread / other npartition in between); every call of the sequence goes through the region recorder with particles on the '
    'stripe boundaries of the partition that call actually used, and an accepted call whose concurrent stripes share a cell is a violation whatever was called before it.'
)
RULE += ' Added after seeded round 11: a call rejected by the validation (odd / too-large npartition with nthread>1), then a valid call (default or user npartition) with particles in every cell along the partition axis under the region recorder, compared with the single-threaded deposit.'
ASSUMPTIONS = [
    'iterations of one numba prange region may run concurrently in any interleaving when nthread>1; regions are separated by a barrier; with nthread==1 nothing is concurrent',
    'the interpreted bodies are the same code objects as the compiled kernels (re-bound globals only)',
]


def adversarial_particles(rng, n1d_shape, npart, coord, box, dtype, nrand=40):
    """Particles on / next to every stripe boundary, all in the same transverse cell column."""
    edges = (np.arange(0, npart + 1) * (box / npart)).astype(dtype)
    xs = []
    for e in edges:
        y = dtype(e)
        lo = y
        hi = y
        xs.append(y)
        for _ in range(2):
            lo = np.nextafter(lo, dtype(-np.inf))
            hi = np.nextafter(hi, dtype(np.inf))
            xs += [lo, hi]
    # also the edges computed the way the partition computes keys (k / inv_pwidth)
    inv = dtype(npart / box)
    for s in range(npart + 1):
        xs.append(dtype(s) / inv)
    x = np.array(xs, dtype=dtype)
    x = x[(x >= 0) & (x < dtype(box))]
    x = np.concatenate([x, rng.uniform(0, box, nrand).astype(dtype)])
    x = np.minimum(x, np.nextafter(dtype(box), dtype(0)))
    pos = np.empty((len(x), 3), dtype=dtype)
    o1, o2 = [c for c in range(3) if c != coord]
    pos[:, coord] = x
    pos[:, o1] = dtype(0.3 * box)
    pos[:, o2] = dtype(0.6 * box)
    k = len(x) - nrand
    pos[k:, o1] = rng.uniform(0, box, nrand).astype(dtype)
    pos[k:, o2] = rng.uniform(0, box, nrand).astype(dtype)
    np.minimum(pos, np.nextafter(dtype(box), dtype(0)), out=pos)
    return pos


def classify(conf, conflicts):
    n1d, npart = conf['n1d'], conf['npartition_used']
    if conf.get('nthread') == 1 and conf.get('threads_in_force_at_kernel_entry', 1) > 1:
        return 'serial-request-runs-multithreaded'
    w = n1d / npart if npart else 0
    if w < 3:
        return 'stripe-narrower-than-cloud'
    if w < 4:
        return 'stripe-3-cells-roundoff-tie'
    return 'concurrent-stripes-share-cell'


def run_config(run, tsc, mon, rng, n1d, nthread, npartition, coord, sort, offset_cells, box, dtype, weights, long_x=False, shape=None, history=None):
    if shape is not None:
        # a given (anisotropic) grid; n1d is the length of the partition axis.  history = the calls made before this one in the same sequence
        shape = tuple(int(x) for x in shape)
        n1d = shape[coord]
    else:
        shape = [n1d, n1d, n1d]
        # keep the grid small along the transverse axes (anisotropic grids are supported)
        for ax in range(3):
            if ax != coord:
                shape[ax] = min(n1d, 8)
        if coord != 0 and long_x:
            shape[0] = min(4 * n1d, 96)  # partition axis shorter than the leading axis
        shape = tuple(shape)
    np_guess = npartition
    conf = dict(n1d=n1d, nthread=nthread, npartition=npartition, coord=coord, sort=sort, offset_cells=offset_cells, box=box, dtype=np.dtype(dtype).str, weights=weights, grid_shape=list(shape))
    if history is not None:
        conf['history'] = [dict(h) for h in history]
    npart_for_particles = npartition if npartition else max(2, 2 * (nthread if nthread > 0 else 16))
    if abs(offset_cells) > n1d - 3:
        offset_cells = 0.5  # the periodic index helper wraps once: a shift must stay well inside one box length on every axis
        conf['offset_cells'] = offset_cells
    offset = offset_cells * box / n1d
    grid = np.zeros(shape, dtype=np.float64)
    run.ev()
    # first call with few particles to learn the partition the code chooses
    probe = adversarial_particles(rng, shape, max(2, npart_for_particles), coord, box, dtype, nrand=4)
    w = None if not weights else np.ones(len(probe), dtype=dtype)
    try:
        with warnings.catch_warnings():
            warnings.simplefilter('ignore')
            tsc.tsc_parallel(probe, grid, box, weights=w, nthread=nthread, wrap=False, npartition=npartition, sort=sort, coord=coord, offset=offset)
    except ValueError as e:
        run.count('rejected')
        return 'rejected'
    except IndexError as e:
        # odd npartition accepted with one thread reads starts[npartition+1]: C11's subject, not C07's
        run.count('index_error_in_interpreted_body')
        return 'indexerror'
    used = len(mon.last_starts) - 1
    conf['npartition_used'] = used
    run.count('accepted')
    eff = getattr(mon, 'effective_threads', nthread)
    conf['threads_in_force_at_kernel_entry'] = eff
    import numba as _nb

    if eff != (nthread if nthread > 0 else _nb.config.NUMBA_NUM_THREADS):
        run.count('kernel_entered_with_other_thread_count')
    if nthread == 1 and eff == 1:
        run.count('accepted_serial_no_concurrency')
        return 'serial'
    # now the adversarial set for the partition actually used
    pos = adversarial_particles(rng, shape, used, coord, box, dtype)
    w = None if not weights else (1 + np.arange(len(pos)) % 3).astype(dtype)
    grid = np.zeros(shape, dtype=np.float64)
    with warnings.catch_warnings():
        warnings.simplefilter('ignore')
        tsc.tsc_parallel(pos.copy(), grid, box, weights=w, nthread=nthread, wrap=False, npartition=npartition, sort=sort, coord=coord, offset=offset)
    st = mon.rec.stats()
    run.count('regions_recorded', st['regions'])
    run.count('cells_recorded', st['cells'])
    run.count('stripe_iterations_recorded', st['iterations'])
    if used >= 4:
        run.nt((n1d, nthread, used, coord, sort, offset_cells, box, conf['dtype'], shape[0] > n1d))
    run.setmax('min_stripe_width_cells_x100_accepted_parallel', -int(100 * n1d / used))
    conflicts = mon.rec.conflicts()
    if not conflicts and used >= 4 and rng.random() < 0.4:
        # clustered sets: only some stripes populated (always both end stripes, which are neighbours through the
        # periodic wrap), so that any logic keyed on which stripes are empty is exercised
        for trial in range(1, 2) if rng.random() < 0.5 else range(0, 1):
            nkeep = int(rng.integers(2, used))
            keepst = sorted(set([0, used - 1] + [int(x) for x in rng.choice(np.arange(used), nkeep, replace=False)]))
            if trial == 1 and len(keepst) % 2 == 0 and len(keepst) > 2:
                keepst = keepst[:1] + keepst[2:]  # odd number of populated stripes
            full = adversarial_particles(rng, shape, used, coord, box, dtype, nrand=0)
            st = np.minimum((full[:, coord].astype(np.float64) * used / box).astype(np.int64), used - 1)
            posc = full[np.isin(st, keepst)]
            if len(posc) == 0:
                continue
            gridc = np.zeros(shape, dtype=np.float64)
            with warnings.catch_warnings():
                warnings.simplefilter('ignore')
                tsc.tsc_parallel(posc.copy(), gridc, box, weights=None, nthread=nthread, wrap=False, npartition=npartition, sort=sort, coord=coord, offset=offset)
            run.count('clustered_sets')
            st2 = mon.rec.stats()
            run.count('cells_recorded', st2['cells'])
            conflicts = mon.rec.conflicts()
            if conflicts:
                conf['populated_stripes'] = keepst
                break
    # the interpreted deposit must also equal the reference deposit (sanity of the monitor itself)
    if conflicts:
        harmful = [c for c in conflicts if any(c['nonzero'].values())]
        key = classify(conf, conflicts)
        c0 = (harmful or conflicts)[0]
        s0, s1 = c0['iterations'][:2]
        reg = c0['region']
        wit = dict(conf=conf, n_conflicting_cells=len(conflicts), n_with_nonzero_addend=len(harmful), example=c0, stripes=[2 * s0 + reg % 2, 2 * s1 + reg % 2], stripe_width_cells=n1d / used)
        if history:
            # the call was made after other calls of a sequence: the property does not depend on what was called before, so the
            # overlap is a violation as it stands; the witness says what the same call does on a fresh instance of the module
            wit['classification_of_overlap'] = key
            wit['same_call_on_fresh_module_instance'] = isolated_outcome(run, tsc, conf, pos, offset)
            key = 'unsafe-stripes-after-call-history'
        run.violation(key, wit)
        return 'race'
    return 'ok'


_FRESH = [0]


def isolated_outcome(run, tsc, conf, pos, offset):
    """Witness information only (never decides): the same call on a newly executed copy of the module (own module-level state)."""
    if _FRESH[0] >= 2:
        return 'not computed (only for the first two witnesses: each fresh copy recompiles the kernels)'
    _FRESH[0] += 1
    try:
        import importlib.util

        spec = importlib.util.spec_from_file_location(f'_c07_fresh_tsc_{_FRESH[0]}', tsc.__file__)
        mod = importlib.util.module_from_spec(spec)
        spec.loader.exec_module(mod)
        with mas.TscRaceMonitor(mod) as m2, warnings.catch_warnings():
            warnings.simplefilter('ignore')
            try:
                mod.tsc_parallel(pos.copy(), np.zeros(tuple(conf['grid_shape']), dtype=np.float64), conf['box'], weights=None, nthread=conf['nthread'], wrap=False, npartition=conf['npartition'], sort=conf['sort'], coord=conf['coord'], offset=offset)
            except ValueError as e:
                return dict(result='rejected', error=str(e)[:120])
            return dict(result='accepted', npartition_used=len(m2.last_starts) - 1, conflicting_cells=len(m2.rec.conflicts()))
    except Exception as e:  # the witness is still complete without it
        return f'not available: {type(e).__name__}: {e}'[:160]


def history_sweep(run, tsc):
    """Sequences of calls in this process that keep (grid shape, nthread, npartition argument) and move the partition axis between
    axes of different lengths.  Oracle: the region recorder on every call of the sequence (what the property forbids literally);
    what the code chose or refused in an earlier call is not compared, the property leaves the choice open."""
    rng = run.rng(3)
    longs = [32, 48, 64, 96, 128]
    shorts = [8, 12, 16, 20, 24]
    seqs = []
    # fixed sequences: long axis first, then the short ones, then the long one again
    for shape, nthread in (((64, 8, 8), 4), ((8, 64, 8), 16), ((16, 8, 96), 2), ((128, 24, 12), -1), ((12, 48, 12), 8)):
        lmax, lmin = max(shape), min(shape)
        la = int(np.argmax(shape))
        order = [la] + [a for a in range(3) if a != la] + [la]
        big = [p for p in range(4, lmax // 4 + 1, 2) if p > lmin // 4]
        for npartition in (None, big[-1], big[0]):
            seqs.append([dict(shape=shape, nthread=nthread, npartition=npartition, coord=c) for c in order])
    for _ in range(45 if run.quick else 1500):
        dims = [int(rng.choice(longs)), int(rng.choice(shorts)), int(rng.choice(longs + shorts))]
        shape = tuple(int(x) for x in rng.permutation(dims))
        lmax, lmin = max(shape), min(shape)
        la = int(np.argmax(shape))
        nthread = int(rng.choice([2, 3, 4, 8, 16, -1]))
        big = [p for p in range(4, lmax // 4 + 1, 2) if p > lmin // 4]  # valid for the long axis, to be refused for the short one
        fine = [p for p in range(2, lmax // 4 + 1, 2)]
        u = rng.random()
        npartition = None if u < 0.45 else int(rng.choice(big)) if (u < 0.85 and big) else int(rng.choice(fine))
        order = [int(x) for x in rng.permutation(3)]
        if rng.random() < 0.6:
            order = [la] + [a for a in order if a != la]
        order = order + [order[0]] + ([int(rng.integers(0, 3))] if rng.random() < 0.3 else [])
        seq = []
        for c in order:
            if seq and rng.random() < 0.2:
                # one other argument changes in between and the sequence goes on with it
                v = int(rng.integers(0, 3))
                if v == 0:
                    shape = tuple(int(x) for x in rng.permutation(shape))
                elif v == 1:
                    nthread = int(rng.choice([2, 4, 16, -1]))
                else:
                    npartition = None if npartition else int(rng.choice(fine))
            seq.append(dict(shape=shape, nthread=nthread, npartition=npartition, coord=c))
        seqs.append(seq)
    with mas.TscRaceMonitor(tsc) as mon:
        for seq in seqs:
            history = []
            for call in seq:
                shape, nthread, npartition, coord = call['shape'], call['nthread'], call['npartition'], call['coord']
                sort = bool(rng.integers(0, 2))
                offset_cells = [0.0, 0.5, 0.25, -0.5, 1.0][int(rng.integers(0, 5))]
                box = [1.0, 123.0, 2000.0][int(rng.integers(0, 3))]
                dtype = [np.float32, np.float64][int(rng.integers(0, 2))]
                res = run_config(run, tsc, mon, rng, shape[coord], nthread, npartition, coord, sort, offset_cells, box, dtype, bool(rng.integers(0, 2)), shape=shape, history=history)
                run.count('history_calls')
                run.count('history_calls_' + res)
                prev = history[-1] if history else None
                if prev and prev['result'] in ('ok', 'race') and res in ('ok', 'race', 'rejected'):
                    same_rest = tuple(prev['shape']) == shape and prev['nthread'] == nthread and prev['npartition'] == npartition
                    if same_rest and prev['coord'] != coord and shape[prev['coord']] != shape[coord]:
                        run.count('history_coord_moved_to_axis_of_other_length')
                        if shape[coord] < shape[prev['coord']]:
                            run.count('history_coord_moved_to_shorter_axis')
                            run.nt(('history', shape, nthread, npartition, prev['coord'], coord))
                            if res == 'rejected':
                                run.count('history_rejected_on_short_axis_after_accepted_on_long_axis')
                used = len(mon.last_starts) - 1 if res in ('ok', 'race') and mon.last_starts is not None else None
                history.append(dict(shape=list(shape), nthread=nthread, npartition=npartition, coord=coord, result=res, npartition_used=used))
                if run.too_many():
                    return
    run.sample(dict(history_example=seqs[0]))


def after_rejection_sweep(run, tsc):
    """A call that the validation REJECTS, then valid calls (default and user-supplied npartition) in the same process.  The valid call
    is made once, directly, with a full-coverage particle set (particles in every cell along the partition axis, so every stripe
    writes every row its clouds can reach, whatever partition the code ends up using) under the region recorder; and compared with the
    single-threaded deposit.  Only the later valid call decides; a 'rejected' call that does not raise is just counted."""
    rng = run.rng(4)
    n = 0
    with mas.TscRaceMonitor(tsc) as mon:
        for rep in range(40 if run.quick else 1500):
            n1d = int(rng.choice([12, 16, 20, 24, 32, 40, 48, 64]))
            coord = int(rng.integers(0, 3))
            shape = [6, 6, 6]
            shape[coord] = n1d
            if rep % 3 == 0:
                shape[(coord + 1) % 3] = int(rng.choice([4, 2 * n1d]))
            shape = tuple(shape)
            nthread = int(rng.choice([2, 3, 4, 8, 16, -1]))
            dtype = [np.float32, np.float64][rep % 2]
            box = [1.0, 123.0, 2000.0][rep % 3]
            bad = [n1d // 4 + 1 + int(rng.integers(0, 4)), n1d // 2, n1d, 3, 5, n1d // 4 + 2 | 1][int(rng.integers(0, 6))]
            bad = max(bad, 3)
            later = [None, None, 2, 2 * max(1, n1d // 8)][int(rng.integers(0, 4))]
            # full coverage: sub-cell positions 0.01, 0.5, 0.99 of every cell along coord, random elsewhere
            cells = np.repeat(np.arange(n1d), 3) + np.tile([0.01, 0.5, 0.99], n1d)
            pos = rng.uniform(0, 1, (len(cells), 3)) * box
            pos[:, coord] = cells * box / n1d
            pos = np.minimum(pos, np.nextafter(box, 0)).astype(dtype)
            pos = pos[rng.permutation(len(pos))]
            rejected = []
            for k in range(int(rng.integers(1, 3))):
                try:
                    with warnings.catch_warnings():
                        warnings.simplefilter('ignore')
                        tsc.tsc_parallel(pos[:5].copy(), np.zeros(shape), box, nthread=nthread, wrap=False, npartition=bad + 2 * k, coord=coord)
                    run.count('expected_rejection_did_not_raise')
                except ValueError:
                    run.count('rejected_calls_before_valid_ones')
                    rejected.append(bad + 2 * k)
                except IndexError:
                    run.count('index_error_in_interpreted_body')
            run.ev()
            grid = np.zeros(shape)
            conf = dict(n1d=n1d, nthread=nthread, npartition=later, coord=coord, box=box, dtype=np.dtype(dtype).str, grid_shape=list(shape), rejected_calls_before=rejected)
            try:
                with warnings.catch_warnings():
                    warnings.simplefilter('ignore')
                    tsc.tsc_parallel(pos.copy(), grid, box, nthread=nthread, wrap=False, npartition=later, coord=coord, sort=bool(rep % 2))
            except ValueError as e:
                run.violation('valid-call-rejected-after-rejected-call', dict(conf=conf, error=str(e)[:200]))
                continue
            n += 1
            used = len(mon.last_starts) - 1
            conf['npartition_used'] = used
            run.nt(('after-rejection', n1d, nthread, later, coord))
            conflicts = mon.rec.conflicts() if getattr(mon, 'effective_threads', 2) > 1 else []
            if conflicts:
                harmful = [c for c in conflicts if any(c['nonzero'].values())]
                c0 = (harmful or conflicts)[0]
                run.violation('unsafe-stripes-after-rejected-call', dict(conf=conf, n_conflicting_cells=len(conflicts), n_with_nonzero_addend=len(harmful), example=c0, stripe_width_cells=n1d / used))
                if run.too_many():
                    return
                continue
            ref = np.zeros(shape)
            with warnings.catch_warnings():
                warnings.simplefilter('ignore')
                tsc.tsc_parallel(pos.copy(), ref, box, nthread=1, wrap=False, npartition=1, coord=coord)
            if not np.allclose(grid, ref, rtol=1e-9, atol=1e-9 * max(1.0, float(np.abs(ref).max()))):
                run.violation('parallel-differs-from-serial-after-rejected-call', dict(conf=conf, max_abs_diff=float(np.abs(grid - ref).max())))
    run.count('valid_calls_after_rejected_ones', n)


def acceptance_sweep(run, tsc):
    rng = run.rng(1)
    with mas.TscRaceMonitor(tsc) as mon:
        if run.quick:
            n1ds = list(range(3, 41)) + [48, 64, 96, 128]
            nthreads = [1, 2, 4, 16, -1]  # a negative count means all of numba's threads (the documented default)
            nexplicit = 6
        else:
            n1ds = list(range(3, 131))
            nthreads = list(range(1, 17)) + [-1, -2]
            nexplicit = 10**9
        k = 0
        for n1d in n1ds:
            for nthread in nthreads:
                cands = [None] + [p for p in range(1, n1d + 1)]
                if len(cands) - 1 > nexplicit:
                    # always keep the critical ones: around n1d//4, n1d//3, n1d//2 and even/odd neighbours
                    crit = {n1d // 4, n1d // 4 + 1, n1d // 4 + 2, n1d // 3, n1d // 3 - 1, n1d // 3 + 1, n1d // 2, n1d // 2 - 1, n1d // 2 + 1, 2, 4}
                    crit = sorted(p for p in crit if 1 <= p <= n1d)
                    extra = [int(x) for x in rng.choice(np.arange(1, n1d + 1), size=min(nexplicit, n1d), replace=False)]
                    cands = [None] + sorted(set(crit + extra))
                for npartition in cands:
                    k += 1
                    coord = k % 3
                    sort = bool((k // 3) % 2)
                    offset_cells = [0.0, 0.5, 0.0, 0.5, 0.25, -0.5, 1.0, -2.5, 2.5, 3.75][k % 10]  # the deposit offset is any length, not only the half cell of interlacing
                    box = [1.0, 123.0, 2000.0][(k // 2) % 3]
                    dtype = [np.float32, np.float64][(k // 5) % 2]
                    weights = bool(k % 2)
                    res = run_config(run, tsc, mon, rng, n1d, nthread, npartition, coord, sort, offset_cells, box, dtype, weights, long_x=bool((k // 7) % 2))
                    if k % 400 == 1:
                        run.sample(dict(n1d=n1d, nthread=nthread, npartition=npartition, coord=coord, sort=sort, offset_cells=offset_cells, box=box, dtype=np.dtype(dtype).str, result=res))
                    if run.too_many():
                        return
        # interlacing path of calc_power: offset = half a cell, float32, default partition, all thread counts
        for n1d in ([8, 12, 16, 24, 32, 48, 64] if run.quick else range(4, 129, 4)):
            for nthread in ([2, 4, 8, 16] if run.quick else range(2, 17)):
                for box in (1.0, 123.0, 2000.0):
                    run_config(run, tsc, mon, rng, n1d, nthread, None, 0, False, 0.5, box, np.float32, False)
                    if run.too_many():
                        return


def lattice_particles(rng, n1d, npart, coord, box, N, sub=8):
    """Particles on a 1/sub-cell lattice within 2 cells of stripe boundaries (exactly representable)."""
    h = box / n1d
    bnd_cells = np.round(np.arange(npart + 1) * n1d / npart * sub) / sub  # keep every position on the exact lattice
    c = rng.choice(bnd_cells, N) + rng.integers(-2 * sub, 2 * sub + 1, N) / float(sub)
    x = np.mod(c, n1d) * h
    pos = np.empty((N, 3), dtype=np.float64)
    pos[:, coord] = x
    for ax in range(3):
        if ax != coord:
            pos[:, ax] = rng.integers(0, n1d * sub, N) / float(sub) * h
    return pos


def stress(run, tsc):
    """Compiled kernels, exact arithmetic: multi-thread result must equal single-thread bit for bit."""
    rng = run.rng(2)
    confs = []
    for n1d, nthread in [(16, 2), (16, 4), (32, 4), (32, 8), (64, 8), (64, 16), (128, 16), (24, 3), (48, 6), (40, 5), (96, 12), (20, 16)]:
        confs.append((n1d, nthread))
    if run.quick:
        confs = confs[:6]
        reps, N = 5, 400000
    else:
        reps, N = 50, 2000000
    for n1d, nthread in confs:
        box = float(n1d)  # cell size 1: positions k/8 exact
        for coord in (0, 1, 2) if not run.quick else (0,):
            # learn default partition
            g = np.zeros((n1d, n1d, n1d), dtype=np.float64)
            pos = lattice_particles(rng, n1d, max(2, min(n1d // 2, 2 * nthread)), coord, box, N)
            w = rng.integers(1, 4, N).astype(np.float64)
            with warnings.catch_warnings():
                warnings.simplefilter('ignore')
                ref = tsc.tsc_parallel(pos.copy(), np.zeros((n1d, n1d, n1d), dtype=np.float64), box, weights=w, nthread=1, wrap=False, coord=coord)
                tot = w.sum()
                if ref.sum() != tot:
                    run.violation('serial-mass-not-conserved', dict(n1d=n1d, total=float(ref.sum()), expected=float(tot)))
                for r in range(reps):
                    out = tsc.tsc_parallel(pos.copy(), np.zeros((n1d, n1d, n1d), dtype=np.float64), box, weights=w, nthread=nthread, wrap=False, coord=coord, sort=bool(r % 2))
                    run.ev()
                    run.count('stress_runs')
                    run.nt(('stress', n1d, nthread, coord, r % 2))
                    if not np.array_equal(out, ref):
                        nd = int((out != ref).sum())
                        conf = dict(n1d=n1d, nthread=nthread, coord=coord, npartition=None, npartition_used=None)
                        run.violation('compiled-parallel-differs-from-serial', dict(n1d=n1d, nthread=nthread, coord=coord, rep=r, cells_differing=nd, mass_parallel=float(out.sum()), mass_serial=float(ref.sum())))
                        break
    # unweighted deposits with sorting inside the stripes (its own code path in the partition), repeated
    for r in range(12 if run.quick else 100):
        n1d, nthread = [(32, 8), (64, 16), (48, 6), (32, 4)][r % 4]
        box = float(n1d)
        pos = lattice_particles(rng, n1d, 8, r % 3, box, 300000)
        with warnings.catch_warnings():
            warnings.simplefilter('ignore')
            ref = tsc.tsc_parallel(pos.copy(), np.zeros((n1d, n1d, n1d), dtype=np.float64), box, weights=None, nthread=1, wrap=False, coord=r % 3)
            out = tsc.tsc_parallel(pos.copy(), np.zeros((n1d, n1d, n1d), dtype=np.float64), box, weights=None, nthread=nthread, wrap=False, coord=r % 3, sort=True)
        run.ev()
        run.count('stress_runs')
        run.nt(('stress-unweighted-sorted', n1d, nthread, r % 3))
        if not np.array_equal(out, ref):
            run.violation('compiled-parallel-differs-from-serial', dict(n1d=n1d, nthread=nthread, weights=None, sort=True, rep=r, cells_differing=int((out != ref).sum()), mass_parallel=float(out.sum()), mass_serial=float(ref.sum())))
            break
    # thread counts that do not divide the particle count, with counts for which N/nthread is not exact in floating point
    for nthread, Np in ((11, 100000), (7, 250003), (13, 250001), (14, 100003), (15, 100001), (3, 100001), (6, 99999)):
        n1d = 32
        box = float(n1d)
        pos = lattice_particles(rng, n1d, 8, 0, box, Np)
        w = rng.integers(1, 4, Np).astype(np.float64)
        with warnings.catch_warnings():
            warnings.simplefilter('ignore')
            ref = tsc.tsc_parallel(pos.copy(), np.zeros((n1d, n1d, n1d), dtype=np.float64), box, weights=w, nthread=1, wrap=False)
            out = tsc.tsc_parallel(pos.copy(), np.zeros((n1d, n1d, n1d), dtype=np.float64), box, weights=w, nthread=nthread, wrap=False, sort=bool(Np % 2))
        run.ev()
        run.count('stress_runs')
        run.nt(('stress-chunks', nthread, Np))
        if not np.array_equal(out, ref):
            run.violation('compiled-parallel-differs-from-serial', dict(n1d=n1d, nthread=nthread, particles=Np, cells_differing=int((out != ref).sum()), mass_parallel=float(out.sum()), mass_serial=float(ref.sum())))
    # the same position / weight array *objects* reused for a second deposit after being overwritten in place
    for n1d, nthread in confs[:3]:
        box = float(n1d)
        buf = lattice_particles(rng, n1d, 4, 0, box, N)
        wbuf = rng.integers(1, 4, N).astype(np.float64)
        with warnings.catch_warnings():
            warnings.simplefilter('ignore')
            tsc.tsc_parallel(buf, np.zeros((n1d, n1d, n1d), dtype=np.float64), box, weights=wbuf, nthread=nthread, wrap=False)
            buf[:] = lattice_particles(rng, n1d, 4, 0, box, N)
            wbuf[:] = rng.integers(1, 4, N)
            ref = tsc.tsc_parallel(buf.copy(), np.zeros((n1d, n1d, n1d), dtype=np.float64), box, weights=wbuf.copy(), nthread=1, wrap=False)
            out = tsc.tsc_parallel(buf, np.zeros((n1d, n1d, n1d), dtype=np.float64), box, weights=wbuf, nthread=nthread, wrap=False)
        run.ev()
        run.count('stress_runs')
        run.nt(('stress-reuse', n1d, nthread))
        if not np.array_equal(out, ref):
            run.violation('second-call-with-same-arrays-differs', dict(n1d=n1d, nthread=nthread, cells_differing=int((out != ref).sum()), mass_parallel=float(out.sum()), mass_serial=float(ref.sum())))
    # nthread=1 with stripe counts that are only accepted because the deposit is serial
    for n1d, npart in ((32, 16), (32, 3), (16, 8), (24, 5)):
        box = float(n1d)
        pos = lattice_particles(rng, n1d, npart, 0, box, N)
        w = rng.integers(1, 4, N).astype(np.float64)
        with warnings.catch_warnings():
            warnings.simplefilter('ignore')
            ref = tsc.tsc_parallel(pos.copy(), np.zeros((n1d, n1d, n1d), dtype=np.float64), box, weights=w, nthread=1, wrap=False, npartition=1)
            for r in range(reps):
                out = tsc.tsc_parallel(pos.copy(), np.zeros((n1d, n1d, n1d), dtype=np.float64), box, weights=w, nthread=1, wrap=False, npartition=npart, sort=bool(r % 2))
                run.ev()
                run.count('stress_runs')
                run.nt(('stress1', n1d, npart, r % 2))
                if not np.array_equal(out, ref):
                    run.violation('compiled-parallel-differs-from-serial', dict(n1d=n1d, nthread=1, npartition=npart, rep=r, cells_differing=int((out != ref).sum()), mass_parallel=float(out.sum()), mass_serial=float(ref.sum())))
                    break
    # the other documented ways of calling it: grid given as an int or a shape tuple (allocated by the function), nthread=-1 (all
    # threads), wrap=True with positions up to one box outside (lattice-preserving), verbose=True; accumulation onto a non-zero grid
    import contextlib
    import io

    for n1d, nthread in confs[:3] + [(32, -1), (64, -1)]:
        box = float(n1d)
        # half-cell lattice: every kernel weight is a multiple of 2^-9 and every cell sum stays below 2^15, exact in the float32 grid the function allocates
        pos = lattice_particles(rng, n1d, 4, 0, box, min(N // 2, 40 * n1d**3), sub=2)
        w = rng.integers(1, 4, len(pos)).astype(np.float64)
        shifted = pos + rng.integers(-1, 2, pos.shape) * box  # whole boxes: the wrapped value is the original, exactly
        with warnings.catch_warnings(), contextlib.redirect_stdout(io.StringIO()):
            warnings.simplefilter('ignore')
            ref = tsc.tsc_parallel(pos.copy(), np.zeros((n1d, n1d, n1d), dtype=np.float32), box, weights=w, nthread=1, wrap=False)
            forms = {
                'int-grid': lambda: tsc.tsc_parallel(pos.copy(), n1d, box, weights=w, nthread=nthread, wrap=False),
                'numpy-int-grid': lambda: tsc.tsc_parallel(pos.copy(), np.int64(n1d), box, weights=w, nthread=nthread, wrap=False),
                'tuple-grid': lambda: tsc.tsc_parallel(pos.copy(), (n1d, n1d, n1d), box, weights=w, nthread=nthread, wrap=False),
                'wrap-outside-box': lambda: tsc.tsc_parallel(shifted.copy(), (n1d, n1d, n1d), box, weights=w, nthread=nthread, wrap=True),
                'wrap-outside-box-column-major': lambda: tsc.tsc_parallel(np.asfortranarray(shifted), (n1d, n1d, n1d), box, weights=w, nthread=nthread, wrap=True),
                'wrap-outside-box-strided-view': lambda: tsc.tsc_parallel(np.repeat(shifted, 2, axis=1)[:, ::2], (n1d, n1d, n1d), box, weights=w, nthread=nthread, wrap=True),
                'verbose': lambda: tsc.tsc_parallel(pos.copy(), np.zeros((n1d, n1d, n1d), dtype=np.float32), box, weights=w, nthread=nthread, wrap=True, verbose=True),
                'accumulate': lambda: tsc.tsc_parallel(pos.copy(), np.full((n1d, n1d, n1d), 2.0, dtype=np.float32), box, weights=w, nthread=nthread, wrap=False) - np.float32(2.0),
            }
            for label, f in forms.items():
                run.ev()
                run.count('stress_runs')
                run.nt(('call-form', label, n1d, nthread))
                try:
                    out = f()
                except Exception as e:
                    run.violation('documented-call-form-fails', dict(form=label, n1d=n1d, nthread=nthread, error=f'{type(e).__name__}: {e}'[:200]))
                    continue
                if out.shape != ref.shape or not np.array_equal(out, ref):
                    run.violation('compiled-parallel-differs-from-serial', dict(form=label, n1d=n1d, nthread=nthread, cells_differing=int((np.asarray(out) != ref).sum()) if out.shape == ref.shape else None, mass_parallel=float(np.sum(out)), mass_serial=float(ref.sum())))
    run.sample(dict(stress_example=dict(n1d=confs[0][0], nthread=confs[0][1], particles=N, lattice='1/8 cell, within 2 cells of stripe boundaries', grid='float64', compare='bitwise')))


def check(run):
    from abacusnbody.analysis import tsc

    acceptance_sweep(run, tsc)
    if not run.too_many():
        stress(run, tsc)
    if not run.too_many():
        history_sweep(run, tsc)  # after all earlier workload (own random stream)
        after_rejection_sweep(run, tsc)  # rejected call, then valid calls (own random stream)
    if run.counters.get('accepted', 0) == 0 or run.counters.get('cells_recorded', 0) == 0:
        run.note_inconclusive('race monitor recorded nothing')


def replay(run, data):
    from abacusnbody.analysis import tsc

    w = data['witness']
    c = w.get('conf')
    run.nt('r1')
    run.nt('r2')
    if not c:
        return stress(run, tsc)
    rng = run.rng(1)
    with mas.TscRaceMonitor(tsc) as mon:
        if c.get('history') is not None:
            hist = []
            for h in c['history']:
                if h['result'] not in ('rejected', 'indexerror'):
                    run_config(run, tsc, mon, rng, h['shape'][h['coord']], h['nthread'], h['npartition'], h['coord'], False, 0.0, c['box'], np.dtype(c['dtype']).type, False, shape=h['shape'], history=hist)
                hist.append(h)
            return run_config(run, tsc, mon, rng, c['n1d'], c['nthread'], c['npartition'], c['coord'], c['sort'], c['offset_cells'], c['box'], np.dtype(c['dtype']).type, c['weights'], shape=c['grid_shape'], history=hist)
        run_config(run, tsc, mon, rng, c['n1d'], c['nthread'], c['npartition'], c['coord'], c['sort'], c['offset_cells'], c['box'], np.dtype(c['dtype']).type, c['weights'], long_x=bool(c.get('grid_shape') and c['grid_shape'][0] > c['n1d']))
