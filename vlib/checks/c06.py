"""C06 — mass assignment conserves weight and applies the TSC/CIC kernel.

Reference kernel (vlib.mas.ref_paint: floor-based, analytic W(s), modulo wrap) against the real
tsc_parallel / _tsc_scatter / cic_serial / power_spectrum.get_field.  Exact regime (dyadic
sub-cell positions, power-of-two cell size, integer weights, float64 grid): bitwise equality for
kernel, additivity, accumulation and roll.  General regime: error bound proportional to the local
|weight| density."""

import warnings

import numpy as np

from .. import core, mas

LEVEL = 'exploration'
RULE = (
    'paintings by the real kernels over particle families (cell centres, half-cell edges +-0,1,2 ulp, 0, nextafter(box,0), exactly box, out of range by up to one box with wrap, '
    'random), weights (None, ones, random>=0, zeros, integer), grids (cubic 3..64, anisotropic incl. non-power-of-two), f4/f8 positions/weights/grid, offsets (0, +-1/2, 1/4 cell), '
    'nthread 1..16, default/explicit npartition, coord 0..2, sort; each compared cell by cell with the reference kernel; exact-regime cases bit for bit. '
    'non-trivial = distinct (kernel, family, grid shape, dtypes, offset, nthread/npartition/coord/sort) with >= 2 particles'
)
RULE += (
    ' Added after seeded round 9: grids two cells thick along an axis; every thread count 2..16 x particle counts {15, 61, 115, 4009, random} against the reference kernel.'
)
RULE += (
    ' Added after seeded round 11: call histories in one process that mix REJECTED tsc_parallel calls (nthread>1 with an odd or too-large user npartition, coord out of range, 1-D pos; '
    'made with a caller-supplied NON-ZERO grid or with a shape) with later valid calls that ask for a fresh grid of the same shape (int or shape tuple) and valid calls into supplied grids: '
    'every valid call is compared with (grid contents before the call + reference kernel sum of that call\'s particles), a freshly allocated grid must not share memory with any array the '
    'caller handed in or received earlier, and no later valid call may change a grid it was not given.'
)
ASSUMPTIONS = [
    'general regime tolerance per cell: (16 + 8*gmax)*eps(position dtype)*(3x3x3-dilated reference deposit of |w|) + 4*eps(grid dtype)*same',
    'with wrap=False only positions inside [0, BoxSize] are used (documented precondition)',
    'parallel runs use partitions the validator accepts; races are the subject of C07',
]


def families(rng, shape, box, dtype, fam, N):
    g = np.array(shape, dtype=np.float64)
    h = box / g
    if fam == 'centres':
        p = rng.integers(0, shape, (N, 3)) * h
    elif fam == 'halfedges':
        p = (rng.integers(0, shape, (N, 3)) + 0.5) * h
        p = p.astype(dtype)
        k = rng.integers(-2, 3, (N, 3))
        for _ in range(2):
            p = np.where(k > 0, np.nextafter(p, dtype(np.inf)), np.where(k < 0, np.nextafter(p, dtype(-np.inf)), p))
            k = k - np.sign(k)
    elif fam == 'boundary':
        vals = np.array([0.0, float(np.nextafter(dtype(box), dtype(0))), box, float(np.nextafter(dtype(0), dtype(1))), box / 2])
        p = rng.choice(vals, (N, 3))
    elif fam == 'boundary_exact':
        p = rng.choice(np.array([0.0, box, box / 2, box / 4]), (N, 3))
    elif fam == 'dyadic':
        p = rng.integers(0, g * 8, (N, 3)) / 8.0 * h
    else:
        p = rng.uniform(0, box, (N, 3))
    p = np.asarray(p, dtype=np.float64)
    if not fam.startswith('boundary'):
        p = np.clip(p, 0, float(np.nextafter(dtype(box), dtype(0))))
    return p.astype(dtype)


def tol_grid(ref_abs, shape, pos_dtype, grid_dtype, npart=0):
    """Error bound per cell: position rounding (moves weight between neighbouring cells, hence the 27-cell sum A) plus the
    rounding of the accumulation in the grid's own precision -- one rounding of at most eps/2 of the running cell value per
    deposit, and a cell can receive at most one deposit per particle (npart; matters for pile-ups in float32 grids)."""
    A = mas.dilate(ref_abs)
    gmax = max(shape)
    return (16 + 8 * gmax) * np.finfo(pos_dtype).eps * A + (4 + 0.5 * npart) * np.finfo(grid_dtype).eps * A + 1e-300


def compare(run, got, ref, tol, desc, key):
    d = np.abs(got.astype(np.float64) - ref)
    bad = d > tol
    run.count('cells_compared', got.size)
    if bad.any():
        i = np.unravel_index(int(np.argmax(d - tol)), got.shape)
        return run.violation(key, dict(cell=[int(x) for x in i], got=float(got[i]), expected=float(ref[i]), tol=float(np.broadcast_to(tol, got.shape)[i]), ncells_bad=int(bad.sum()), total_got=float(got.sum()), total_expected=float(ref.sum()), **desc))
    return False


def tsc_case(run, tsc, rng, k):
    quick = run.quick
    exact = k % 3 == 0
    if exact:
        shape = tuple(int(x) for x in rng.choice([4, 8, 16, 32], 3)) if k % 2 else (int(rng.choice([4, 8, 16, 32, 64])),) * 3
        box = float(rng.choice([1.0, 64.0, 2048.0]))
        pdt = [np.float32, np.float64][k % 2]
        gdt = np.float64
        fam = ['dyadic', 'centres', 'dyadic', 'boundary_exact'][(k // 3) % 4]
    else:
        if k % 2:
            shape = tuple(int(x) for x in rng.integers(3, 20, 3))
        else:
            shape = (int(rng.integers(3, 65)),) * 3
        box = float(rng.choice([1.0, 123.0, 500.0, 2000.0]))
        pdt, gdt = [(np.float32, np.float32), (np.float64, np.float64), (np.float32, np.float64), (np.float64, np.float32)][(k // 2) % (3 if quick else 4)]
        fam = ['random', 'centres', 'halfedges', 'boundary', 'random'][(k // 3) % 5]
    N = int(rng.choice([1, 2, 17, 200, 2000]))
    pos = families(rng, shape, box, pdt, fam, N)
    wkind = ['none', 'ones', 'int', 'random', 'zeros'][k % 5]
    if exact and wkind == 'random':
        wkind = 'int'
    if k % 7 == 6 and N >= 2:
        wkind = 'signed'  # data-minus-randoms style: weights of both signs, cancelling exactly in half of the cases
    wdt = pdt if (k % 29 or run.quick) else (np.float64 if pdt == np.float32 else np.float32)
    if wkind == 'none':
        w = None
    elif wkind == 'ones':
        w = np.ones(N, dtype=wdt)
    elif wkind == 'int':
        w = rng.integers(0, 5, N).astype(wdt)
    elif wkind == 'zeros':
        w = np.zeros(N, dtype=wdt)
    elif wkind == 'signed':
        w = rng.choice(np.array([-2.0, -1.0, 1.0, 2.0]), N)
        if k % 2 == 0:
            w[N // 2 :] = 0
            w[N // 2 : 2 * (N // 2)] = -w[: N // 2]  # total exactly 0
            if N % 2:
                w[-1] = 0
        w = w.astype(wdt)
    else:
        w = rng.uniform(0, 3, N).astype(wdt)
    coord = k % 3
    n1d = shape[coord]
    off_cells = [0.0, 0.5, -0.5, 0.25, 0.0, -0.75, 0.875, -0.9][(k // 2) % 8]  # any sub-cell offset
    if exact and off_cells not in (0.0, 0.5, -0.5, -0.75, 0.875):
        off_cells = 0.5
    offset = off_cells * box / shape[0]  # one length for all axes (also on anisotropic grids, where it is a different number of cells per axis)
    nthread = int(rng.integers(1, 17))
    npart = None
    if k % 4 == 1 and nthread > 1 and n1d // 4 >= 2:
        npart = 2 * int(rng.integers(1, n1d // 8 + 1)) if n1d >= 8 else 2
    if k % 4 in (2, 3) and (nthread == 1 or k % 8 == 2):
        # one thread accepts any stripe count, odd ones included
        nthread = 1
        npart = int(rng.integers(1, n1d + 1))
    sort = bool(k % 2)
    # out of range by up to one box, with wrap=True
    wrap = True
    outside = (k % 6 == 2) and not fam.startswith('boundary')
    pos_in = pos.copy()
    if outside:
        shift = rng.integers(-1, 2, (N, 3)).astype(np.float64) * box
        pos_in = (pos.astype(np.float64) + shift).astype(pdt)
        if exact and pdt == np.float32 and box != 1.0:
            # adding a box must stay exact for the exact regime: dyadic values with few bits, fine in f4 up to box 2048*?; keep f8
            pos_in = (pos.astype(np.float64) + shift).astype(np.float64)
            pdt_eff = np.float64
            pos = pos.astype(np.float64)
            if w is not None:
                w = w.astype(np.float64)
    desc = dict(kernel='tsc', family=fam, shape=list(shape), box=box, pos_dtype=np.dtype(pos_in.dtype).str, grid_dtype=np.dtype(gdt).str, weights=wkind, offset_cells=off_cells, nthread=nthread, npartition=npart, coord=coord, sort=sort, N=N, exact=exact, outside=outside)
    pre = None
    if k % 5 == 3:
        pre = rng.integers(0, 7, shape).astype(gdt)  # accumulate into a supplied non-zero grid
    grid = np.zeros(shape, dtype=gdt) if pre is None else pre.copy()
    # the supplied grid as a view that is not C-contiguous: the in-place padded rfftn layout buf[:, :, :n], a Fortran-ordered
    # array, a transposed view, one component of a multi-field array -- the deposit must land in the caller's memory
    layout = ['c', 'c', 'c', 'padded', 'c', 'fortran', 'c', 'c', 'transposed', 'c', 'component'][k % 11] if gdt == np.float32 else 'c'
    if layout != 'c':
        init = grid
        if layout == 'padded':
            buf = np.full(shape[:2] + (shape[2] + 2,), 7.0, dtype=gdt)
            grid = buf[:, :, : shape[2]]
        elif layout == 'fortran':
            grid = np.zeros(shape, dtype=gdt, order='F')
        elif layout == 'transposed':
            grid = np.zeros(shape[::-1], dtype=gdt).T
        else:
            multi = np.full(shape + (2,), 7.0, dtype=gdt)
            grid = multi[..., 1]
        grid[...] = init
        desc['grid_layout'] = layout
        run.count('non_contiguous_grid_cases')
    run.ev()
    run.progress(desc)
    try:
        with warnings.catch_warnings():
            warnings.simplefilter('ignore')
            out = tsc.tsc_parallel(pos_in.copy(), grid, box, weights=w, nthread=nthread, wrap=wrap, npartition=npart, sort=sort, coord=coord, offset=offset)
    except ValueError as e:
        run.count('rejected_configs')
        return
    if out is not grid:
        return run.violation('tsc-supplied-grid-not-returned', desc)
    if layout == 'padded' and not (buf[:, :, shape[2] :] == 7.0).all() or layout == 'component' and not (multi[..., 0] == 7.0).all():
        return run.violation('tsc-wrote-outside-supplied-view', desc)
    # reference positions: what the documented wrap gives (positions in [0,box) or exactly box)
    pref = pos_in.astype(np.float64)
    if outside:
        pref = np.where(pref >= box, pref - box, np.where(pref < 0, pref + box, pref))
    ref = mas.ref_paint(pref, shape, box, w, offset=offset, kind='tsc')
    if pre is not None:
        ref = ref + pre.astype(np.float64)
    if N >= 2:
        run.nt(('tsc', fam, tuple(shape), desc['pos_dtype'], desc['grid_dtype'], wkind, off_cells, nthread, npart, coord, sort, exact, outside, pre is not None))
    if exact:
        run.count('exact_regime_cases')
        if not np.array_equal(out.astype(np.float64), ref):
            return compare(run, out, ref, 0.0, desc, 'tsc-kernel-exact')
    else:
        refabs = mas.ref_paint(pref, shape, box, w, offset=offset, kind='tsc', absw=True)
        if pre is not None:
            refabs = refabs + np.abs(pre)
        if compare(run, out, ref, tol_grid(refabs, shape, pos_in.dtype.type, gdt, npart=(N if gdt == np.float32 else 0)), desc, 'tsc-kernel'):
            return
    # a second call with the *same array objects* after modifying them in place (no state may survive between calls)
    if k % 9 == 5 and N >= 2 and pre is None and not outside:
        buf = pos_in.copy()
        wbuf = None if w is None else w.copy()
        g1 = np.zeros(shape, dtype=gdt)
        with warnings.catch_warnings():
            warnings.simplefilter('ignore')
            try:
                tsc.tsc_parallel(buf, g1, box, weights=wbuf, nthread=nthread, wrap=wrap, npartition=npart, sort=sort, coord=coord, offset=offset)
                buf[:] = buf[::-1].copy()  # another particle order ...
                buf[:, coord] = families(rng, shape, box, buf.dtype.type, fam, N)[:, coord]  # ... and other coordinates along the partition axis
                if wbuf is not None:
                    wbuf *= 2
                g2 = np.zeros(shape, dtype=gdt)
                tsc.tsc_parallel(buf, g2, box, weights=wbuf, nthread=nthread, wrap=wrap, npartition=npart, sort=sort, coord=coord, offset=offset)
            except ValueError:
                g2 = None
        if g2 is not None:
            run.ev()
            run.count('same_object_second_call_checks')
            ref2 = mas.ref_paint(buf.astype(np.float64), shape, box, wbuf, offset=offset, kind='tsc')
            refabs2 = mas.ref_paint(buf.astype(np.float64), shape, box, wbuf, offset=offset, kind='tsc', absw=True)
            if compare(run, g2, ref2, tol_grid(refabs2, shape, buf.dtype.type, gdt, npart=(N if gdt == np.float32 else 0)), dict(desc, second_call_same_arrays=True), 'tsc-state-between-calls'):
                return
    # non-negativity for non-negative weights
    if pre is None and wkind != 'signed' and out.min() < 0:
        return run.violation('tsc-negative-deposit', dict(min=float(out.min()), **desc))
    # total weight
    tot = float(N if w is None else w.astype(np.float64).sum())
    got_tot = float(out.astype(np.float64).sum() - (0 if pre is None else pre.astype(np.float64).sum()))
    if abs(got_tot - tot) > (0 if exact else 1e-4 * max(1.0, abs(tot))):
        return run.violation('tsc-total-weight', dict(total=got_tot, expected=tot, **desc))
    # whole-cell shift rolls the grid (exact regime only: shift is exact)
    if exact and pre is None and not outside and k % 2 == 0:
        sh = [int(x) for x in rng.integers(-3, 4, 3)]
        h = box / np.array(shape)
        p2 = (pos.astype(np.float64) + np.array(sh) * h)
        p2 = p2.astype(np.float64)
        w2 = None if w is None else w.astype(np.float64)
        with warnings.catch_warnings():
            warnings.simplefilter('ignore')
            out2 = tsc.tsc_parallel(p2, np.zeros(shape, dtype=np.float64), box, weights=w2, nthread=1, wrap=True, offset=offset)
        run.ev()
        run.count('roll_checks')
        if not np.array_equal(out2, np.roll(out.astype(np.float64), sh, axis=(0, 1, 2))):
            return run.violation('tsc-shift-not-roll', dict(shift_cells=sh, **desc))
    # additivity: painting two halves into the same grid equals painting all (exact regime)
    if exact and pre is None and N >= 2 and k % 4 == 0:
        g2 = np.zeros(shape, dtype=gdt)
        m = N // 2
        with warnings.catch_warnings():
            warnings.simplefilter('ignore')
            tsc.tsc_parallel(pos_in[:m].copy(), g2, box, weights=None if w is None else w[:m], nthread=1, wrap=True, offset=offset)
            tsc.tsc_parallel(pos_in[m:].copy(), g2, box, weights=None if w is None else w[m:], nthread=1, wrap=True, offset=offset)
        run.ev()
        run.count('additivity_checks')
        if not np.array_equal(g2, out):
            return run.violation('tsc-not-additive', desc)


def scatter_case(run, tsc, rng, k):
    """_tsc_scatter directly (the worker), serial."""
    shape = tuple(int(x) for x in rng.integers(3, 12, 3))
    box = float(rng.choice([1.0, 77.0]))
    pdt = [np.float32, np.float64][k % 2]
    fam = ['random', 'halfedges', 'boundary', 'centres'][k % 4]
    N = int(rng.choice([0, 1, 50]))
    pos = families(rng, shape, box, pdt, fam, N)
    w = None if k % 3 == 0 else rng.uniform(0, 2, N).astype(pdt)
    grid = np.zeros(shape, dtype=np.float64)
    run.ev()
    tsc._tsc_scatter(pos, grid, box, weights=w, offset=0.0)
    ref = mas.ref_paint(pos, shape, box, w, kind='tsc')
    refabs = ref
    run.nt(('scatter', fam, shape, np.dtype(pdt).str, N))
    compare(run, grid, ref, tol_grid(refabs, shape, pdt, np.float64), dict(kernel='_tsc_scatter', family=fam, shape=list(shape), box=box, N=N), 'tsc-scatter-kernel')


def cic_case(run, cic, rng, k):
    exact = k % 3 == 0
    if exact:
        shape = tuple(int(x) for x in rng.choice([4, 8, 16], 3))
        box = float(rng.choice([1.0, 64.0]))
        fam = ['dyadic', 'centres', 'boundary_exact'][(k // 3) % 3]
        pdt = [np.float32, np.float64][k % 2]
        gdt = np.float64
    else:
        shape = tuple(int(x) for x in rng.integers(2, 16, 3)) if k % 2 else (int(rng.integers(2, 40)),) * 3
        box = float(rng.choice([1.0, 123.0, 2000.0]))
        fam = ['random', 'centres', 'halfedges', 'boundary'][(k // 3) % 4]
        pdt = [np.float32, np.float64][k % 2]
        gdt = [np.float32, np.float64][(k // 2) % 2]
    N = int(rng.choice([0, 1, 2, 100, 1000]))
    pos = families(rng, shape, box, pdt, fam, N)
    wkind = ['none', 'int', 'random'][k % 3]
    w = None if wkind == 'none' else (rng.integers(0, 4, N).astype(pdt) if wkind == 'int' or exact else rng.uniform(0, 2, N).astype(pdt))
    pre = rng.integers(0, 5, shape).astype(gdt) if k % 5 == 1 else None
    grid = np.zeros(shape, dtype=gdt) if pre is None else pre.copy()
    desc = dict(kernel='cic', family=fam, shape=list(shape), box=box, pos_dtype=np.dtype(pdt).str, grid_dtype=np.dtype(gdt).str, weights=wkind, N=N, exact=exact)
    run.ev()
    run.progress(desc)
    cic.cic_serial(pos, grid, box, weights=w)
    ref = mas.ref_paint(pos, shape, box, w, kind='cic')
    if pre is not None:
        ref = ref + pre
    if N >= 2:
        run.nt(('cic', fam, shape, desc['pos_dtype'], desc['grid_dtype'], wkind, exact, pre is not None))
    if exact:
        run.count('exact_regime_cases')
        if not np.array_equal(grid.astype(np.float64), ref):
            return compare(run, grid, ref, 0.0, desc, 'cic-kernel-exact')
    else:
        refabs = mas.ref_paint(pos, shape, box, w, kind='cic', absw=True) + (0 if pre is None else np.abs(pre))
        if compare(run, grid, ref, tol_grid(refabs, shape, np.float64, gdt, npart=(N if gdt == np.float32 else 0)), desc, 'cic-kernel'):
            return
    if pre is None and N and grid.min() < 0:
        run.violation('cic-negative-deposit', dict(min=float(grid.min()), **desc))


def get_field_case(run, ps, rng, k):
    """power_spectrum.get_field: painting + documented normalisation field/mean - 1 (mean = N/n^3)."""
    n = int(rng.choice([4, 8, 12, 16]))
    box = float(rng.choice([1.0, 200.0]))
    paste = ['TSC', 'CIC'][k % 2]
    N = int(rng.choice([10, 500]))
    pos = rng.uniform(0, box, (N, 3)).astype(np.float32)
    d = [0.0, 0.5, -0.5, 0.25, -0.75][(k // 2) % 5] * box / n  # the sub-cell shift may have either sign
    nthread = int(rng.choice([1, 2, 4]))
    w = rng.uniform(0.2, 3.0, N).astype(np.float32) if (k // 4) % 2 else None
    run.ev()
    with warnings.catch_warnings():
        warnings.simplefilter('ignore')
        f = ps.get_field(pos.copy(), box, n, paste, w=None if w is None else w.copy(), d=d, nthread=nthread)
    kind = paste.lower()
    pref = (pos.astype(np.float32) + np.float32(d)).astype(np.float64) if paste == 'CIC' else pos.astype(np.float64)
    # documented normalisation: field * n^3 / len(pos) - 1 (also when weights are given)
    ref = mas.ref_paint(pref, (n, n, n), box, w, offset=(d if paste == 'TSC' else 0.0), kind=kind)
    ref_over = ref * (n**3 / N) - 1.0
    tol = tol_grid(ref, (n, n, n), np.float32, np.float32) * (n**3 / N) + 4e-6
    run.nt(('get_field', paste, n, d != 0, nthread, w is not None))
    compare(run, f, ref_over, tol, dict(kernel='get_field', paste=paste, nmesh=n, box=box, N=N, d=d, nthread=nthread), 'get-field')


def _rejected_call(run, tsc, rng, pos, dens, box, n1d):
    """One call the validator (or the argument handling in front of any deposit) rejects.  Returns the kind."""
    from numba.core.errors import TypingError

    kind = ['odd-npartition', 'npartition-too-large', 'odd-npartition', 'coord-out-of-range', 'pos-1d'][int(rng.integers(0, 5))]
    kw = dict(nthread=int(rng.integers(2, 9)))
    p = pos.copy()
    if kind == 'odd-npartition':
        kw['npartition'] = 2 * int(rng.integers(1, 6)) + 1
    elif kind == 'npartition-too-large':
        kw['npartition'] = 2 * (max(n1d // 4, 2) // 2) + 2 * int(rng.integers(1, 4))
    elif kind == 'coord-out-of-range':
        kw['coord'] = 3
    else:
        p = p[:, 0].copy()
    try:
        with warnings.catch_warnings():
            warnings.simplefilter('ignore')
            tsc.tsc_parallel(p, dens, box, **kw)
    except (ValueError, IndexError, TypingError):
        run.count('rejected_calls_before_valid_ones')
    else:
        run.count('expected_rejection_did_not_raise')  # not stated by the property: counted only
    return kind


def history_episode(run, tsc, rng, j):
    """A caller's history within one process: valid and REJECTED calls interleaved, into supplied non-zero grids and into grids the
    function is asked to allocate.  Only the valid calls are judged, each against (contents before + reference kernel sum of that
    call's particles); what a failed call leaves behind (pools, caches, flags) must not show up in them."""
    shape = [(16, 16, 16), (8, 8, 8), (12, 20, 8), (32, 32, 32), (5, 9, 7), (24, 24, 24), (8, 16, 4)][j % 7]
    cubic = len(set(shape)) == 1
    box = float(rng.choice([1.0, 100.0, 500.0]))
    pdt = [np.float32, np.float64][j % 2]
    held = []  # [array the caller holds, snapshot of what it must contain, label]
    ops = [['valid_supplied', 'rejected_supplied', 'rejected_shape', 'valid_shape'][int(x)] for x in rng.integers(0, 4, 3)]
    ops += ['valid_supplied', 'rejected_supplied', 'valid_shape', 'valid_supplied', 'rejected_supplied', 'valid_supplied', 'valid_shape']
    nrej = 0
    hist = []
    for step, op in enumerate(ops):
        N = int(rng.choice([2, 40, 300, 1500]))
        pos = families(rng, shape, box, pdt, ['random', 'halfedges', 'centres'][int(rng.integers(0, 3))], N)
        supplied = op.endswith('supplied')
        if supplied:
            if held and rng.integers(0, 3) == 0:
                slot = held[int(rng.integers(0, len(held)))]  # accumulate further into a grid already held
            else:
                gdt = [np.float32, np.float64][int(rng.integers(0, 2))]
                g = rng.integers(1, 7, shape).astype(gdt)  # non-zero everywhere
                slot = [g, g.copy(), 'supplied@%d' % step]
                held.append(slot)
            dens = slot[0]
        else:
            dens = shape[0] if (cubic and rng.integers(0, 2)) else shape
        if op.startswith('rejected'):
            kind = _rejected_call(run, tsc, rng, pos, dens, box, shape[0])
            nrej += 1
            hist.append(op + ':' + kind)
            if supplied:
                slot[1] = slot[0].copy()  # whatever a rejected call did to its own grid is not judged
            continue
        nthread = int(rng.choice([1, 1, 2, 4]))
        w = None if rng.integers(0, 2) else rng.uniform(0, 3, N).astype(pdt)
        desc = dict(kernel='tsc', family='call history with rejected calls', episode=j, step=step, op=op, history=list(hist), shape=list(shape), box=box, N=N, nthread=nthread, pos_dtype=np.dtype(pdt).str, densgrid_arg=('ndarray ' + slot[2]) if supplied else repr(dens), rejected_calls_so_far=nrej)
        hist.append(op)
        run.ev()
        run.progress(desc)
        with warnings.catch_warnings():
            warnings.simplefilter('ignore')
            out = tsc.tsc_parallel(pos.copy(), dens, box, weights=None if w is None else w.copy(), nthread=nthread)
        run.count('valid_calls_in_histories_with_rejected_calls')
        run.nt(('tsc-history', j, step, op))
        before = slot[1].astype(np.float64) if supplied else 0.0
        if supplied:
            if out is not dens:
                return run.violation('tsc-state-left-by-rejected-call', dict(what='supplied grid not returned', **desc))
        else:
            for a, _, label in held:
                if np.shares_memory(out, a):
                    return run.violation('tsc-state-left-by-rejected-call', dict(what='grid the function was asked to allocate shares memory with an array the caller already holds', shares_with=label, total_got=float(out.sum(dtype=np.float64)), total_expected=float(N if w is None else w.astype(np.float64).sum()), **desc))
            if tuple(out.shape) != tuple(shape):
                return run.violation('tsc-state-left-by-rejected-call', dict(what='shape of allocated grid', got_shape=list(out.shape), **desc))
        p64 = pos.astype(np.float64)
        ref = mas.ref_paint(p64, shape, box, w, offset=0.0, kind='tsc')
        gdt_out = out.dtype.type
        if compare(run, out, ref + before, tol_grid(ref + np.abs(before), shape, pdt, gdt_out, npart=(N if gdt_out == np.float32 else 0)), desc, 'tsc-state-left-by-rejected-call'):
            return True
        # no grid the call was not given may have changed
        for other in held:
            if (not supplied or other is not slot) and not np.array_equal(other[0], other[1]):
                return run.violation('tsc-state-left-by-rejected-call', dict(what='a grid the call was not given changed', changed=other[2], **desc))
        if supplied:
            slot[1] = out.copy()
        else:
            held.append([out, out.copy(), 'returned@%d' % step])
    return False


def check(run):
    from abacusnbody.analysis import cic, tsc
    from abacusnbody.analysis import power_spectrum as ps

    rng = run.rng(0)
    ntsc = 360 if run.quick else 14000
    ncic = 200 if run.quick else 5000
    for k in range(ntsc):
        tsc_case(run, tsc, rng, k)
        if run.too_many():
            return
    run.sample(dict(kernel='tsc', family='halfedges', shape=[5, 9, 7], box=123.0, note='example of a general-regime case'))
    for k in range(60 if run.quick else 1500):
        scatter_case(run, tsc, rng, k)
    for k in range(ncic):
        cic_case(run, cic, rng, k)
        if run.too_many():
            return
    for k in range(32 if run.quick else 400):
        get_field_case(run, ps, rng, k)
    # grids only two cells thick along an axis (the two outer cells of the 3-cell kernel are then the same cell: both shares must
    # arrive), and every thread count against particle counts that do not divide evenly (the per-thread chunks must cover every
    # particle exactly once): each compared cell by cell with the reference kernel
    thin = [((8, 6, 2), 0), ((2, 2, 2), 0), ((16, 2, 5), 0), ((2, 9, 12), 1), ((12, 12, 2), 1), ((3, 2, 2), 0)]
    for j, (shape, coord) in enumerate(thin):
        for gdt in (np.float32, np.float64):
            N = [200, 17, 2000][j % 3]
            pos = families(rng, shape, 123.0, gdt, ['random', 'halfedges', 'centres'][j % 3], N)
            w = None if j % 2 else rng.uniform(0, 3, N).astype(gdt)
            for nthread in (1, 4):
                desc = dict(kernel='tsc', family='two-cell-thick axis', shape=list(shape), box=123.0, N=N, nthread=nthread, coord=coord, weights=w is not None, grid_dtype=np.dtype(gdt).str)
                run.ev()
                try:
                    with warnings.catch_warnings():
                        warnings.simplefilter('ignore')
                        out = tsc.tsc_parallel(pos.copy(), np.zeros(shape, dtype=gdt), 123.0, weights=w, nthread=nthread, coord=coord)
                except ValueError:
                    run.count('rejected_configs')
                    continue
                run.count('thin_grid_cases')
                ref = mas.ref_paint(pos.astype(np.float64), shape, 123.0, w, offset=0.0, kind='tsc')
                run.nt(('tsc-thin', shape, nthread, desc['grid_dtype']))
                compare(run, out, ref, tol_grid(mas.ref_paint(pos.astype(np.float64), shape, 123.0, None if w is None else np.abs(w), offset=0.0, kind='tsc'), shape, gdt, gdt, npart=N), desc, 'tsc-kernel')
    for nthread in range(2, 17):
        for N in (15, 61, 115, 4009, int(rng.integers(2, 3000))):
            shape = [(16, 16, 16), (32, 8, 8), (24, 24, 24)][(nthread + N) % 3]
            pos = families(rng, shape, 500.0, np.float64, 'random', N)
            w = rng.integers(1, 5, N).astype(np.float64)
            desc = dict(kernel='tsc', family='thread-count x particle-count sweep', shape=list(shape), box=500.0, N=N, nthread=nthread, weights='int', npartition=None)
            run.ev()
            with warnings.catch_warnings():
                warnings.simplefilter('ignore')
                out = tsc.tsc_parallel(pos.copy(), np.zeros(shape, dtype=np.float64), 500.0, weights=w, nthread=nthread)
            run.count('thread_by_particle_count_cases')
            ref = mas.ref_paint(pos, shape, 500.0, w, offset=0.0, kind='tsc')
            run.nt(('tsc-chunks', nthread, N))
            if compare(run, out, ref, tol_grid(ref, shape, np.float64, np.float64), desc, 'tsc-kernel'):
                break
    # "additive over particles" under threads rests on concurrently painted stripes never sharing a cell: for anisotropic grids
    # partitioned along y or z this is decided deterministically by the region recorder of C07 (a handful of configurations here;
    # the sweep over all of them is C07's)
    from .. import mas as _mas
    from . import c07 as _c07

    with _mas.TscRaceMonitor(tsc) as mon:
        for k in range(10 if run.quick else 120):
            _c07.run_config(run, tsc, mon, rng, [16, 24, 32, 48, 20][k % 5], [2, 4, 8, 16][k % 4], None, 1 + k % 2, bool(k % 2), [0.0, 0.5, -0.75][k % 3], [1.0, 500.0][k % 2], [np.float32, np.float64][k % 2], bool(k % 3), long_x=bool(k % 2))
            run.count('partition_axis_configs_under_region_recorder')
    run.sample(dict(kernel='cic', family='dyadic', shape=[8, 16, 4], box=64.0, exact=True))
    # call histories with rejected calls in between (own random stream; after all other workload)
    hrng = run.rng(1)
    for j in range(28 if run.quick else 400):
        if history_episode(run, tsc, hrng, j) or run.too_many():
            break


def replay(run, data):
    check(run)
