"""C16 — read_asdf returns exactly the requested particle columns.

Generated rvint / pack9 / packedpid / pid files (snapshot and light-cone headers; none/zlib/blsc
compression) read by the real read_asdf under every subset of the loadable columns, both float
types and the deprecated flags; oracle = reference decoders of C04/C15 applied to the raw column."""

import itertools
import os
import shutil
import tempfile
import warnings

import numpy as np

from .. import core
from ..asdfio import write_asdf
from . import c04, c15

LEVEL = 'exploration'
RULE = (
    'generated particle files (rvint, pack9, packedpid, pid; N incl. 0 and header-only pack9; snapshot / light-cone headers; none/zlib/blsc) x every subset of the loadable columns '
    'for the file type x float32/float64 x deprecated load_pos/load_vel combinations x explicit colname; files with two or none of the known raw columns. '
    'A case = one read_asdf call whose column set, row count, values and meta are checked. non-trivial = distinct (file type, N class, header kind, compression, load subset, dtype)'
)
RULE += (
    ' Added after seeded round 9: a PID column stored under another name (packedpid_A, halo_pid) and named explicitly, default and explicit load lists; 8 files of up to 700000 records read by 8 threads at the same time.'
)
RULE += (
    ' Added after seeded round 11: read_asdf calls that are rejected (non-integer / non-numeric ppd override with a drawn PID request, bad dtype, unknown or foreign column name, '
    'header lacking BoxSize / ppd / VelZSpace_to_kms / subsample fractions, absent colname / header key / data key, two raw columns, missing or non-ASDF file), each followed in the same '
    'process by valid default and explicit reads of pid, packedpid, rvint and pack9 files, and all of them in a row followed by every valid read; the later tables against the independent decoder and the same read made before any rejection.'
)
ASSUMPTIONS = [
    "loadable columns: rvint/pack9 -> pos, vel; packedpid/pid -> pid, lagr_pos, tagged, density, lagr_idx, aux (as documented)",
    'tolerances as in C04 (1 ulp) and C15 (float64 1e-12 BoxSize, float32 8 ulp BoxSize)',
]

PIDCOLS = ['pid', 'lagr_pos', 'tagged', 'density', 'lagr_idx', 'aux']


def header(kind, box, velz, ppd):
    h = dict(BoxSize=float(box), VelZSpace_to_kms=float(velz), ppd=float(ppd), SimName='SimP', Redshift=0.5)
    if kind == 'lightcone':
        h.update(OutputType='LightCone', SimSet='AbacusSummit', ParticleSubsampleA=0.03, ParticleSubsampleB=0.07)
    else:
        h['OutputType'] = 'TimeSlice'
    return h


def make_file(rng, d, ftype, N, hkind, comp, k):
    box = float(rng.choice([500.0, 2000.0]))
    if ((k // 4) + k) % 2 == 0:
        box = [250.1, 1234.5678, 1185.5][k // 3 % 3]  # header values that float32 does not hold exactly
    velz = float(rng.uniform(100, 3000))
    ppd = int(rng.choice([64, 6912]))
    hdr = header(hkind, box, velz, ppd)
    # the header stores ppd as a float; headers derived from NP**(1/3) hold a value a few ulp off the integer
    if k % 5 == 2:
        hdr['ppd'] = float(ppd**3) ** (1 / 3)
    elif k % 5 == 4:
        hdr['ppd'] = float(np.nextafter(float(ppd), np.inf))
    if ftype == 'rvint':
        data = rng.integers(0, 1 << 32, (N, 3), dtype=np.uint64).astype(np.uint32).view(np.int32)
    elif ftype == 'pack9':
        recs = []
        left = N
        cpd = int(rng.choice([3, 875, 1701]))
        while left > 0 or not recs:
            if k % 4 == 2:
                cpd = int(rng.choice([3, 875, 1701, 1]))  # the cell grid is per header, not per file
            recs.append(c15.header_record(cpd, int(rng.integers(1, 4048)), [int(x) for x in rng.integers(0, cpd, 3)]))
            n = min(left, int(rng.integers(0, 60)))
            if n:
                f = rng.integers(0, 4096, (n, 6))
                f[:, 0] = rng.integers(0, 0xFF0, n)
                recs.append(c15.pack_fields(f))
            left -= n
            if N == 0:
                break
        data = np.concatenate(recs)
    else:
        data = rng.integers(0, 1 << 63, N, dtype=np.uint64) * np.uint64(2) + rng.integers(0, 2, N, dtype=np.uint64)
    fn = os.path.join(d, f'{ftype}_{k}.asdf')
    stored = data
    if ftype == 'rvint' and k % 8 == 5:
        stored = np.ascontiguousarray(data).reshape(-1)  # the three words of each particle stored as one flat column of 3N integers
    write_asdf(fn, dict(header=hdr, data={ftype: stored}), comp)
    return fn, data, hdr


def expected(ftype, data, hdr, load, dtype):
    box = hdr['BoxSize']
    out = {}
    if ftype == 'rvint':
        p, v = c04.ref_rvint(data, box, dtype)
        if 'pos' in load:
            out['pos'] = (p, 1)
        if 'vel' in load:
            out['vel'] = (v, 1)
    elif ftype == 'pack9':
        p, v, valid = c15.ref_decode(data, box, hdr['VelZSpace_to_kms'])
        if 'pos' in load:
            out['pos'] = (p, 'p9')
        if 'vel' in load:
            out['vel'] = (v, 'p9')
    else:
        r = c04.ref_pids(data)
        ppd = int(round(hdr['ppd']))
        for c in load:
            if c == 'aux':
                out['aux'] = (data, 0)
            elif c == 'lagr_pos':
                out[c] = (r['lagr_idx'].astype(np.float64) * (box / ppd) - box / 2, 'lp')
            elif c in r:
                out[c] = (r[c], 0)
    return out


def check_table(run, t, ftype, data, hdr, load, dtype, desc):
    exp = expected(ftype, data, hdr, load, dtype)
    box = hdr['BoxSize']
    if list(t.colnames) != [c for c in t.colnames if c in exp] or set(t.colnames) != set(exp):
        return run.violation('read-asdf-column-set', dict(got=t.colnames, expected=sorted(exp), **desc))
    nrows = len(next(iter(exp.values()))[0]) if exp else 0
    if len(t) != nrows:
        return run.violation('read-asdf-row-count', dict(rows=len(t), expected=nrows, **desc))
    for c, (e, mode) in exp.items():
        g = np.asarray(t[c])
        run.count('values_compared', g.size)
        if mode == 0:
            ok = g.astype(np.float64) == np.asarray(e).astype(np.float64) if c == 'density' else (g == e)
        elif mode == 1:
            ok = core.ulp_diff_ok(g, e, 1, dtype)
        elif mode == 'lp':
            ok = np.abs(g.astype(np.float64) - e) <= 4 * float(np.spacing(np.dtype(dtype).type(box))) + 4 * np.spacing(np.abs(e).astype(dtype)).astype(np.float64)
        else:
            scale = box if c == 'pos' else np.nanmax(np.abs(e), initial=1.0)
            tol = (1e-12 * scale + 1e-12 * np.abs(e)) if dtype == np.float64 else (8 * float(np.spacing(np.float32(scale))) + 2e-6 * np.abs(e))
            with np.errstate(invalid='ignore'):
                ok = (np.abs(g.astype(np.float64) - e) <= tol) | (np.isnan(g) & np.isnan(e))
        if c in ('pos', 'vel', 'lagr_pos', 'density') and g.dtype != np.dtype(dtype):
            return run.violation('read-asdf-dtype', dict(column=c, got=str(g.dtype), **desc))
        if g.size and c not in ('lagr_idx', 'aux', 'tagged') and core.poison_count(g.reshape(len(g), -1)[:, 0]):
            return run.violation('read-asdf-unwritten-rows', dict(column=c, **desc))
        if not np.all(ok):
            i = np.argwhere(~np.asarray(ok))[0]
            return run.violation('read-asdf-values', dict(column=c, row=int(i[0]), **desc))
    # "values equal the direct decoding of the file's raw column": the package's own decoders called directly on the raw array with
    # the header's values give bit-identical columns
    try:
        from abacusnbody.data import bitpacked as _bp
        from abacusnbody.data import pack9 as _p9

        direct = {}
        if ftype == 'rvint' and (('pos' in exp) or ('vel' in exp)):
            p_, v_ = _bp.unpack_rvint(data, hdr['BoxSize'], float_dtype=dtype)
            direct = dict(pos=p_, vel=v_)
        elif ftype == 'pack9' and (('pos' in exp) or ('vel' in exp)):
            p_, v_ = _p9.unpack_pack9(data, hdr['BoxSize'], hdr['VelZSpace_to_kms'], float_dtype=dtype)
            direct = dict(pos=p_, vel=v_)
        elif ftype in ('packedpid', 'pid'):
            want = {c: True for c in exp if c in ('pid', 'lagr_pos', 'tagged', 'density', 'lagr_idx')}
            if want:
                direct = _bp.unpack_pids(data, box=hdr['BoxSize'], ppd=hdr['ppd'], float_dtype=dtype, **want)
        for c, dv in direct.items():
            if c in t.colnames:
                run.count('columns_compared_with_direct_decoder')
                if not np.array_equal(np.asarray(t[c]), np.asarray(dv), equal_nan=(np.asarray(dv).dtype.kind == 'f')):
                    return run.violation('read-asdf-differs-from-direct-decoding', dict(column=c, **desc))
    except ImportError:
        pass
    # meta is the file header
    for k, v in hdr.items():
        if t.meta.get(k) != v:
            return run.violation('read-asdf-meta', dict(key=k, got=repr(t.meta.get(k)), **desc))
    return False


class _Renamed:
    """The run, with every violation filed under one mechanism name (the original key is kept in the witness)."""

    def __init__(self, run, mech, extra):
        self._run, self._mech, self._extra = run, mech, extra

    def __getattr__(self, name):
        return getattr(self._run, name)

    def violation(self, key, witness):
        return self._run.violation(self._mech, dict(failed_check=key, **self._extra, **witness))


def after_rejected_calls(run, RA, d):
    """A read_asdf call that is rejected (raises) followed, in the same process, by valid reads: the later table has exactly the
    requested / default columns, the values of the independent decoder and the header as meta, and is the table the same call
    returned before anything was rejected.  The verdict comes from the later valid call only; a candidate that is not rejected
    is counted, not reported."""
    import contextlib
    import io

    MECH = 'read-asdf-after-rejected-call'
    rng = run.rng(1)
    d2 = os.path.join(d, 'after_rejected')
    os.makedirs(d2, exist_ok=True)
    files = {}
    k = 2000
    for ftype in ('rvint', 'pack9', 'packedpid', 'pid'):
        for j in range(2):
            k += 1
            N = int(rng.integers(30, 400))
            hkind = ['snapshot', 'lightcone'][(k + j) % 2]
            comp = [None, 'zlib', 'blsc'][k % 3]
            fn, data, hdr = make_file(rng, d2, ftype, N, hkind, comp, k)
            files.setdefault(ftype, []).append((fn, data, hdr, dict(file_type=ftype, N=N, header=hkind, compression=comp)))

    def quiet(fn, **kw):
        with warnings.catch_warnings(), contextlib.redirect_stdout(io.StringIO()):
            warnings.simplefilter('ignore')
            return RA.read_asdf(fn, verbose=False, **kw)

    # the valid calls
    valid = []
    for ftype, lst in files.items():
        for j, (fn, data, hdr, fdesc) in enumerate(lst):
            if ftype in ('rvint', 'pack9'):
                loads = [None, ['pos'], ['vel'], ['vel', 'pos'][:: 1 if j else -1]]
                default = ['pos', 'vel']
            else:
                sub = [c for c in PIDCOLS if rng.random() < 0.4] or ['lagr_idx']
                loads = [None, ['pid'], ['tagged'], ['aux'], sub, list(PIDCOLS)]
                default = ['pid']
            for i, load in enumerate(loads):
                dtype = [np.float32, np.float64][(i + j) % 2]
                valid.append(dict(fn=fn, ftype=ftype, data=data, hdr=hdr, load=load, eff=load if load is not None else default, dtype=dtype,
                                  desc=dict(load=load, dtype=np.dtype(dtype).str, **fdesc)))

    def do_valid(v, rej):
        """one valid read, judged against the independent decoder and against its own earlier result; rej = what was rejected before it"""
        extra = dict(after_rejected_call=rej) if rej else dict(after_rejected_call=None, phase='before any rejected call')
        r2 = _Renamed(run, MECH, extra)
        run.ev()
        run.progress(dict(v['desc'], **extra))
        core.poison_prime()
        try:
            t = quiet(v['fn'], load=v['load'], dtype=v['dtype'])
        except Exception as e:
            r2.violation('valid-read-raises-' + type(e).__name__, dict(error=str(e)[:200], **v['desc']))
            return
        if check_table(r2, t, v['ftype'], v['data'], v['hdr'], v['eff'], v['dtype'], v['desc']):
            return
        snap = dict(cols=list(t.colnames), vals={c: np.array(t[c]) for c in t.colnames}, meta=dict(t.meta))
        if 'snap' not in v:
            v['snap'] = snap
            return
        s0 = v['snap']
        run.count('valid_reads_compared_with_same_read_before_rejections')
        if s0['cols'] != snap['cols'] or s0['meta'] != snap['meta']:
            r2.violation('differs-from-same-call-before-the-rejected-call', dict(got_columns=snap['cols'], before=s0['cols'], **v['desc']))
            return
        for c in s0['cols']:
            if not np.array_equal(s0['vals'][c], snap['vals'][c], equal_nan=(s0['vals'][c].dtype.kind == 'f')):
                r2.violation('differs-from-same-call-before-the-rejected-call', dict(column=c, **v['desc']))
                return

    for v in valid:
        do_valid(v, None)

    # files that are rejected part-way through a read
    def variant(ftype, name, mutate_hdr=None, extra_cols=None):
        fn0, data, hdr, _ = files[ftype][0]
        h = dict(hdr)
        if mutate_hdr:
            mutate_hdr(h)
        cols = {ftype: data}
        cols.update(extra_cols or {})
        fn = os.path.join(d2, f'{name}_{ftype}.asdf')
        write_asdf(fn, dict(header=h, data=cols), None)
        return fn

    def pidsub(minlen=2):
        c = [x for x in PIDCOLS if rng.random() < 0.5]
        while len(c) < minlen:
            c = sorted(set(c) | {PIDCOLS[int(rng.integers(0, 5))]}, key=PIDCOLS.index)
        return tuple(c)

    rejected = []  # (label, thunk)
    for ftype in ('packedpid', 'pid'):
        f0, f1 = files[ftype][0][0], files[ftype][1][0]
        # the documented example of the input class first, then drawn requests
        for fn_, load, ppd in ((f0, ('pid', 'lagr_pos', 'density'), 16.5), (f1, pidsub(), float(rng.integers(2, 7000)) + 0.5), (f0, tuple(PIDCOLS), -3.25),
                               (f1, pidsub(), 'sixteen'), (f0, pidsub(), None)):
            rejected.append((dict(file_type=ftype, load=load, ppd=ppd, why='ppd override is not an integer'),
                             lambda fn_=fn_, load=load, ppd=ppd: quiet(fn_, load=load, ppd=ppd)))
        ld = pidsub()
        rejected.append((dict(file_type=ftype, load=ld, dtype='not-a-dtype', why='bad dtype'), lambda f=f1, ld=ld: quiet(f, load=ld, dtype='not-a-dtype')))
        ld = pidsub()
        rejected.append((dict(file_type=ftype, load=ld, dtype='complex64', why='bad dtype'), lambda f=f0, ld=ld: quiet(f, load=ld, dtype=np.complex64)))
        ld = pidsub(1) + ('spin',)
        rejected.append((dict(file_type=ftype, load=ld, why='unknown column name'), lambda f=f0, ld=ld: quiet(f, load=ld)))
        ld = ('pos',) + pidsub(1)
        rejected.append((dict(file_type=ftype, load=ld, why='column of another file type'), lambda f=f1, ld=ld: quiet(f, load=ld)))
        ld = pidsub()
        fnv = variant(ftype, 'nobox', lambda h: h.pop('BoxSize'))
        rejected.append((dict(file_type=ftype, load=ld, why='header without BoxSize'), lambda f=fnv, ld=ld: quiet(f, load=ld)))
        ld = pidsub()
        fnv = variant(ftype, 'noppd', lambda h: h.pop('ppd'))
        rejected.append((dict(file_type=ftype, load=ld, why='header without ppd'), lambda f=fnv, ld=ld: quiet(f, load=ld)))
        ld = pidsub()
        rejected.append((dict(file_type=ftype, load=ld, colname='rvint', why='named raw column absent'), lambda f=f0, ld=ld: quiet(f, load=ld, colname='rvint')))
        ld = pidsub()
        rejected.append((dict(file_type=ftype, load=ld, header_key='hdr', why='header key absent'), lambda f=f1, ld=ld: quiet(f, load=ld, header_key='hdr')))
        ld = pidsub()
        fnv = variant(ftype, 'twocols', None, dict(rvint=files['rvint'][0][1]))
        rejected.append((dict(file_type=ftype + '+rvint', load=ld, why='two known raw columns'), lambda f=fnv, ld=ld: quiet(f, load=ld)))
    for ftype in ('rvint', 'pack9'):
        f0, f1 = files[ftype][0][0], files[ftype][1][0]
        for ld, kw, why in ((('pos', 'vel'), dict(dtype='not-a-dtype'), 'bad dtype'), (('vel',), dict(dtype=np.complex64), 'bad dtype'), (('pos',), dict(dtype=np.int16), 'bad dtype'),
                            (('pos', 'spin'), {}, 'unknown column name'), (('vel', 'pid', 'density'), {}, 'column of another file type'),
                            (('pos', 'vel'), dict(colname='packedpid'), 'named raw column absent'), (('vel',), dict(data_key='particles'), 'data key absent')):
            rejected.append((dict(file_type=ftype, load=ld, why=why, **{a: str(b) for a, b in kw.items()}), lambda f=[f0, f1][len(rejected) % 2], ld=ld, kw=kw: quiet(f, load=ld, **kw)))
        fnv = variant(ftype, 'nobox', lambda h: h.pop('BoxSize'))
        rejected.append((dict(file_type=ftype, load=('pos', 'vel'), why='header without BoxSize'), lambda f=fnv: quiet(f, load=('pos', 'vel'))))
    fnv = variant('pack9', 'novelz', lambda h: h.pop('VelZSpace_to_kms'))
    rejected.append((dict(file_type='pack9', load=None, why='header without VelZSpace_to_kms'), lambda f=fnv: quiet(f)))
    lcf = [x for x in files['pid'] + files['rvint'] if x[3]['header'] == 'lightcone'][0]
    fnv = variant(lcf[3]['file_type'], 'nosub', lambda h: (h.update(OutputType='LightCone', SimSet='AbacusSummit'), h.pop('ParticleSubsampleB', None)))
    rejected.append((dict(file_type=lcf[3]['file_type'], load=None, why='light-cone header without ParticleSubsampleB'), lambda f=fnv: quiet(f)))
    rejected.append((dict(file='missing', load=('pid', 'density'), why='no such file'), lambda: quiet(os.path.join(d2, 'no_such_file.asdf'), load=('pid', 'density'))))
    notasdf = os.path.join(d2, 'garbage.asdf')
    with open(notasdf, 'wb') as fh:
        fh.write(bytes(rng.integers(0, 256, 500, dtype=np.uint8)))
    rejected.append((dict(file='garbage', load=None, why='not an ASDF file'), lambda: quiet(notasdf)))

    def do_rejected(label, thunk):
        run.progress(dict(rejected_call=label))
        try:
            thunk()
        except Exception as e:
            run.count('rejected_calls_before_valid_ones')
            return dict(label, error=f'{type(e).__name__}: {e}'[:120])
        run.count('rejection_candidates_that_returned_a_table')  # not stated by the property either way: no verdict
        return None

    # every rejected call followed directly by each of a rotating choice of valid reads (every file type, default and explicit requests)
    by_type = {ft: [v for v in valid if v['ftype'] == ft] for ft in files}
    nfollow = 1 if run.quick else 6
    for i, (label, thunk) in enumerate(rejected):
        follow = []
        for ft, vs in by_type.items():
            follow.append([v for v in vs if v['load'] is None][i % 2])  # the documented defaults
            follow += [vs[int(x)] for x in rng.choice(len(vs), min(nfollow, len(vs)), replace=False)]
        for v in follow:
            rej = do_rejected(label, thunk)
            if rej is None:
                break
            run.nt(('after-rejected', label.get('why'), label.get('file_type'), v['ftype'], repr(v['load'])))
            do_valid(v, rej)
    # all the rejected calls in a row, then every valid read
    nrej = sum(do_rejected(label, thunk) is not None for label, thunk in rejected)
    for v in valid:
        run.nt(('after-all-rejected', v['ftype'], repr(v['load']), v['desc']['dtype']))
        do_valid(v, dict(rejected_calls_in_a_row=nrej))


def subsets(cols):
    for r in range(1, len(cols) + 1):
        for s in itertools.combinations(cols, r):
            yield list(s)


def check(run):
    from abacusnbody.data import read_abacus as RA

    rng = run.rng(0)
    d = tempfile.mkdtemp(prefix='verif_c16_')
    try:
        nfiles = 3 if run.quick else 40
        k = 0
        held = []
        posfiles = []
        plan = []
        for rep in range(nfiles):
            for j, ftype in enumerate(('rvint', 'pack9', 'packedpid', 'pid')):
                # every file type meets the hazardous sizes (0 = empty / header-only pack9, 1) in every tier
                plan.append((ftype, [0, 1, 257, 3000, 40][(rep + j) % 5] if rep >= 2 else [0, 1][rep]))
        for ftype, N in plan:
            for _once in (0,):
                k += 1
                rep = k
                hkind = ['snapshot', 'lightcone'][k % 2]
                comp = [None, 'zlib', 'blsc'][(k // 2) % 3]
                fn, data, hdr = make_file(rng, d, ftype, N, hkind, comp, k)
                if ftype in ('rvint', 'pack9'):
                    posfiles.append((fn, ftype, data, hdr))
                cols = ['pos', 'vel'] if ftype in ('rvint', 'pack9') else PIDCOLS
                base = {}
                reqs = [None] + list(subsets(cols))
                if run.quick and len(reqs) > 24:
                    idx = rng.choice(len(reqs) - 1, 14, replace=False) + 1
                    pairs = [r for r in reqs[1:] if len(r) <= 2]  # singles and every pair (buffer-sharing hazards are pairwise)
                    reqs = [None] + pairs + [reqs[int(i)] for i in idx if reqs[int(i)] not in pairs] + [cols]
                for load in reqs:
                    for dtype in (np.float32, np.float64):
                        eff = load if load is not None else (['pos', 'vel'] if ftype in ('rvint', 'pack9') else ['pid'])
                        desc = dict(file_type=ftype, N=N, header=hkind, compression=comp, load=load, dtype=np.dtype(dtype).str)
                        run.progress(desc)
                        run.ev()
                        core.poison_prime()
                        try:
                            with warnings.catch_warnings():
                                warnings.simplefilter('ignore')
                                t = RA.read_asdf(fn, load=load, dtype=dtype, verbose=False)
                        except Exception as e:
                            run.violation('read-asdf-raises-' + type(e).__name__, dict(error=str(e)[:200], **desc))
                            continue
                        run.nt((ftype, min(N, 2), hkind, comp, tuple(eff), desc['dtype']))
                        if check_table(run, t, ftype, data, hdr, eff, dtype, desc):
                            continue
                        # tables handed out earlier stay what they were (no buffer shared between calls)
                        for (t_old, snap, d_old) in held:
                            for c in t_old.colnames:
                                if not np.array_equal(np.asarray(t_old[c]), snap[c], equal_nan=(snap[c].dtype.kind == 'f')):
                                    run.violation('read-asdf-earlier-table-changed', dict(column=c, earlier=d_old, after_reading=desc))
                                    held.clear()
                                    break
                        run.count('earlier_tables_rechecked', len(held))
                        if len(t):
                            held.append((t, {c: np.array(t[c]) for c in t.colnames}, dict(desc)))
                            if len(held) > 8:
                                # keep the tables with the most rows (a later, smaller read is what would disturb them) and the latest ones
                                held.sort(key=lambda h: len(h[0]))
                                held.pop(0)
                        # differential: each column identical whatever else is requested
                        for c in t.colnames:
                            key = (c, desc['dtype'])
                            a = np.asarray(t[c])
                            if key in base and not np.array_equal(a, base[key], equal_nan=(a.dtype.kind == 'f')):
                                run.violation('read-asdf-column-depends-on-request', dict(column=c, **desc))
                            base.setdefault(key, a.copy())
                if k <= 2:
                    run.sample(dict(file_type=ftype, N=N, header=hkind, compression=comp, requests=len(reqs)))
                # an explicitly empty request: a table with no columns (and the header as metadata), not the defaults
                for label, kw in (('load=[]', dict(load=[])), ('load=()', dict(load=())),) + ((('load_pos=False,load_vel=False', dict(load_pos=False, load_vel=False)),) if ftype in ('rvint', 'pack9') else ()):
                    run.ev()
                    run.nt((ftype, 'empty-request', label))
                    try:
                        with warnings.catch_warnings():
                            warnings.simplefilter('ignore')
                            t = RA.read_asdf(fn, verbose=False, **kw)
                    except Exception as e:
                        run.count('empty_request_refused')  # a refusal is not a wrong table
                        continue
                    if len(t.colnames):
                        run.violation('read-asdf-column-set', dict(got=t.colnames, expected=[], file_type=ftype, N=N, request=label))
                    elif any(t.meta.get(k2) != v for k2, v in hdr.items()):
                        run.violation('read-asdf-meta', dict(file_type=ftype, N=N, request=label))
                # explicit colname
                t = RA.read_asdf(fn, colname=ftype, verbose=False)
                run.ev()
                check_table(run, t, ftype, data, hdr, ['pos', 'vel'] if ftype in ('rvint', 'pack9') else ['pid'], np.float32, dict(file_type=ftype, colname=ftype))
                # deprecated flags (rvint / pack9)
                if ftype in ('rvint', 'pack9'):
                    for lp, lv, want in ((True, True, ['pos', 'vel']), (True, False, ['pos']), (False, True, ['vel']), (True, None, ['pos']), (None, True, ['vel']), (False, None, ['vel']), (None, False, ['pos'])):
                        kw = {}
                        if lp is not None:
                            kw['load_pos'] = lp
                        if lv is not None:
                            kw['load_vel'] = lv
                        desc = dict(file_type=ftype, N=N, deprecated=kw)
                        run.ev()
                        with warnings.catch_warnings(record=True) as wl:
                            warnings.simplefilter('always')
                            t = RA.read_asdf(fn, verbose=False, **kw)
                        if any(issubclass(w.category, FutureWarning) for w in wl):
                            run.count('deprecation_warnings_observed')  # informational: the property does not cover warnings
                        check_table(run, t, ftype, data, hdr, want, np.float32, desc)
                        run.nt((ftype, 'deprecated', lp, lv))
                    # an explicit load list given together with the deprecated flags: the list decides (documented: flags ignored)
                    for load, kw in ((['vel'], dict(load_pos=True)), (['pos'], dict(load_vel=True, load_pos=False)), (['pos', 'vel'], dict(load_vel=False))):
                        desc = dict(file_type=ftype, N=N, load=load, deprecated=kw)
                        run.ev()
                        import contextlib
                        import io

                        with warnings.catch_warnings(), contextlib.redirect_stdout(io.StringIO()):
                            warnings.simplefilter('ignore')
                            t = RA.read_asdf(fn, load=load, verbose=bool(k % 2), **kw)
                        check_table(run, t, ftype, data, hdr, load, np.float32, desc)
                        run.nt((ftype, 'load+deprecated', tuple(load)))
                else:
                    # verbose mode only reports: same table
                    run.ev()
                    import contextlib
                    import io

                    with contextlib.redirect_stdout(io.StringIO()), contextlib.redirect_stderr(io.StringIO()):
                        t = RA.read_asdf(fn, load=['pid', 'density'], verbose=True)
                    check_table(run, t, ftype, data, hdr, ['pid', 'density'], np.float32, dict(file_type=ftype, N=N, verbose=True))
        # the position files once more, largest first, keeping every table: a later (smaller) read must leave the earlier tables alone
        posfiles.sort(key=lambda r: -len(r[2]))
        kept = []
        for fn_, ftype_, data_, hdr_ in posfiles:
            for dtype in (np.float32, np.float64):
                run.ev()
                t = RA.read_asdf(fn_, load=['pos', 'vel'], dtype=dtype, verbose=False)
                desc = dict(file_type=ftype_, N=len(t), dtype=np.dtype(dtype).str, phase='largest first, all tables kept')
                check_table(run, t, ftype_, data_, hdr_, ['pos', 'vel'], dtype, desc)
                for (t_old, snap, d_old) in kept:
                    if any(not np.array_equal(np.asarray(t_old[c]), snap[c], equal_nan=True) for c in t_old.colnames):
                        run.violation('read-asdf-earlier-table-changed', dict(earlier=d_old, after_reading=desc))
                        kept = []
                        break
                run.count('earlier_tables_rechecked', len(kept))
                kept.append((t, {c: np.array(t[c]) for c in t.colnames}, desc))
        run.nt(('tables-kept', len(posfiles)))
        # a pack9 file whose first cell alone holds more than 2^21 particles (no header for millions of records), then ordinary cells
        nbig = 2**21 + 70001
        f = rng.integers(0, 4096, (nbig, 6))
        f[:, 0] = rng.integers(0, 0xFF0, nbig)
        f2 = rng.integers(0, 4096, (50, 6))
        f2[:, 0] = rng.integers(0, 0xFF0, 50)
        bigdata = np.concatenate([c15.header_record(875, 1234, [1, 2, 3]), c15.pack_fields(f), c15.header_record(875, 999, [5, 6, 7]), c15.pack_fields(f2)])
        bighdr = header('snapshot', 2000.0, 1000.0, 6912)
        bigfn = os.path.join(d, 'pack9_big.asdf')
        write_asdf(bigfn, dict(header=bighdr, data=dict(pack9=bigdata)), None)
        for load, dtype in ((['pos', 'vel'], np.float32), (['vel'], np.float64)):
            run.ev()
            desc = dict(file_type='pack9', N=nbig + 50, layout='one cell of 2^21+70001 particles', load=load, dtype=np.dtype(dtype).str)
            run.progress(desc)
            t = RA.read_asdf(bigfn, load=load, dtype=dtype, verbose=False)
            run.nt(('pack9-big', tuple(load), desc['dtype']))
            check_table(run, t, 'pack9', bigdata, bighdr, load, dtype, desc)
        del f, bigdata
        os.unlink(bigfn)
        # files with two known raw columns / none
        two = os.path.join(d, 'two.asdf')
        rv = rng.integers(0, 1 << 31, (5, 3)).astype(np.int32)
        pp = rng.integers(0, 1 << 62, 5).astype(np.uint64)
        hdr = header('snapshot', 500.0, 1000.0, 64)
        write_asdf(two, dict(header=hdr, data=dict(rvint=rv, packedpid=pp)), None)
        none = os.path.join(d, 'none.asdf')
        write_asdf(none, dict(header=hdr, data=dict(other=rv)), None)
        pair_files = [(two, 'rvint+packedpid'), (none, 'no-known-column')]
        for a, b in (('rvint', 'pack9'), ('packedpid', 'pid'), ('pack9', 'pid')):
            fnp = os.path.join(d, f'pair_{a}_{b}.asdf')
            arrs = dict(rvint=rv, packedpid=pp, pid=pp, pack9=np.concatenate([c15.header_record(3, 10, [0, 1, 2]), c15.pack_fields(rng.integers(0, 0xFF0, (4, 6)))]))
            write_asdf(fnp, dict(header=hdr, data={a: arrs[a], b: arrs[b]}), None)
            pair_files.append((fnp, f'{a}+{b}'))
        for fn, label in pair_files:
            # the ambiguity must be reported whatever the (explicit or default) load list is
            for load in (None, ('pos',), ('vel',), ('pos', 'vel'), ('pid',), ('pid', 'density'), ('aux',), ('pos', 'pid')):
                run.ev()
                try:
                    with warnings.catch_warnings():
                        warnings.simplefilter('ignore')
                        t = RA.read_asdf(fn, load=load, verbose=False)
                    run.violation('read-asdf-ambiguous-not-rejected', dict(file=label, load=load, got_columns=t.colnames))
                except ValueError:
                    run.count('documented_rejections_observed')
                except Exception as e:
                    run.violation('read-asdf-ambiguous-wrong-error', dict(file=label, load=load, error=f'{type(e).__name__}: {e}'[:200]))
                run.nt(('reject', label, load))
        t = RA.read_asdf(two, colname='rvint', verbose=False)
        run.ev()
        check_table(run, t, 'rvint', rv, hdr, ['pos', 'vel'], np.float32, dict(file='two-known-columns', colname='rvint'))
        t = RA.read_asdf(two, colname='packedpid', load=['pid', 'aux'], verbose=False)
        run.ev()
        check_table(run, t, 'packedpid', pp, hdr, ['pid', 'aux'], np.float32, dict(file='two-known-columns', colname='packedpid'))
        # a thread pool over files (the usual way a directory of slab files is read): every table equals the decode of its own file
        import threading

        tfiles = []
        for j, (ftype, N) in enumerate((('pack9', 600000), ('rvint', 300011), ('pack9', 500000), ('packedpid', 250000), ('pack9', 700000), ('rvint', 777), ('pack9', 31000), ('pid', 400000))):
            fn, data, thdr = make_file(rng, d, ftype, N, ['snapshot', 'lightcone'][j % 2], [None, None, 'blsc', 'zlib'][j % 4], 1000 + j)
            tfiles.append((fn, ftype, data, thdr))
        for rep in range(2 if run.quick else 12):
            res = [None] * len(tfiles)
            bar = threading.Barrier(len(tfiles))

            def work(i):
                bar.wait()
                try:
                    with warnings.catch_warnings():
                        warnings.simplefilter('ignore')
                        res[i] = RA.read_asdf(tfiles[i][0], dtype=[np.float32, np.float64][(i + rep) % 2], verbose=False)
                except Exception as e:  # noqa
                    res[i] = e

            ths = [threading.Thread(target=work, args=(i,)) for i in range(len(tfiles))]
            [t.start() for t in ths]
            [t.join() for t in ths]
            run.ev()
            run.nt(('thread-pool-over-files', rep))
            for i, (fn, ftype, data, thdr) in enumerate(tfiles):
                run.count('tables_read_concurrently')
                ft = 'packedpid' if ftype == 'pid' else ftype
                tdesc = dict(file_type=ftype, N=len(data), readers_at_once=len(tfiles), repetition=rep)
                if isinstance(res[i], Exception):
                    run.violation('read-asdf-concurrent-readers', dict(error=f'{type(res[i]).__name__}: {res[i]}'[:200], **tdesc))
                    break
                if check_table(run, res[i], ft, data, thdr, ['pos', 'vel'] if ftype in ('rvint', 'pack9') else ['pid'], [np.float32, np.float64][(i + rep) % 2], tdesc):
                    break
        # a PID column stored under another name ("probably one of ..."): not detected, but once named explicitly it is read like any PID column,
        # by default as 'pid'
        for cn in ('packedpid_A', 'halo_pid'):
            fno = os.path.join(d, f'named_{cn}.asdf')
            write_asdf(fno, dict(header=hdr, data={cn: pp, 'unrelated': rv}), None)
            for load in (None, ['pid', 'aux'], ['pid']):
                run.ev()
                run.nt(('explicitly-named-column', cn, repr(load)))
                try:
                    t = RA.read_asdf(fno, colname=cn, load=load, verbose=False)
                except Exception as e:
                    run.violation('read-asdf-named-column-raises-' + type(e).__name__, dict(colname=cn, load=load, error=f'{type(e).__name__}: {e}'[:200]))
                    continue
                check_table(run, t, 'packedpid', pp, hdr, load or ['pid'], np.float32, dict(file='no known raw column', colname=cn, load=load))
        after_rejected_calls(run, RA, d)
    finally:
        shutil.rmtree(d, ignore_errors=True)


def replay(run, data):
    check(run)
