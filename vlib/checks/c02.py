"""C02 — a halo column's values do not depend on what else was requested.

Differential monitor on the real loader: reference = fields='all' load of the same files / unit
option / subsample selection; then the column alone, with others in both orders, in random subsets,
with the default set; bit-identical (NaN-aware) values, dtype and shape; any exception for a valid
request is a violation with the traceback as witness."""

import shutil

import numpy as np

from .. import catoracle, core, gen_catalog

LEVEL = 'exploration'
RULE = (
    'for generated trees x cleaned on/off x convert_units on/off x subsample selection: every column name of user_dt (and clean_dt_progen when cleaned) requested alone, '
    'as [c]+others and others+[c], inside random k-subsets, and ordered pairs (derived column, any column); passthrough subsets of raw names as a separate class; '
    'each loaded column compared bit for bit with the fields="all" load. non-trivial = distinct (tree, cleaned, units, subsamples, request) where at least one column the '
    'requested column is derived from was not itself requested'
)
RULE += (
    ' Added after seeded round 9: the request as a generator / iterator / dict view; an all-columns filtered load against the masked unfiltered load.'
)
ASSUMPTIONS = [
    'npstart/npout index columns are re-indexed when subsamples are loaded (documented): they are compared between loads with the same subsample selection only',
    "with cleaned=True the column requested as 'N' or 'N_total' comes back as 'N' holding the cleaned count (documented)",
    'passthrough mode takes raw column names; it is a separate, explicitly labelled class',
]

DERIVED_PREFIXES = ('sigmavM', 'sigmavrad', 'sigmavtan', 'r10_', 'r25_', 'r33_', 'r50_', 'r67_', 'r75_', 'r90_', 'r95_', 'r98_', 'rvcirc', 'sigmar_', 'sigman_', 'sigmav_eigen')
INDEXCOLS = {'npstartA', 'npstartB', 'npoutA', 'npoutB', 'npstartA_merge', 'npstartB_merge', 'npoutA_merge', 'npoutB_merge'}


def result_name(c, cleaned):
    return 'N' if (cleaned and c == 'N_total') else c


def has_hidden_dependency(c, request):
    """True when c is computed from other halo columns/raw columns that were not requested."""
    if c.startswith('sigmavMid'):
        com = c[len('sigmavMid') :]
        return not ({'sigmavMaj' + com, 'sigmavMin' + com} <= set(request))
    return c.startswith(DERIVED_PREFIXES)


def classify(err, request, kw):
    msg = f'{type(err).__name__}: {err}'
    if kw.get('passthrough'):
        if isinstance(err, KeyError) and any(s in str(err) for s in ('N_total', 'npout', 'npstart')):
            return 'passthrough-subset-index-cols'
        return 'passthrough-' + type(err).__name__
    mid = [c for c in request if c.startswith('sigmavMid') and has_hidden_dependency(c, request)]
    if mid:
        return 'tempcol-dtype-from-stale-var'
    if isinstance(err, KeyError) and not kw.get('cleaned') and kw.get('subsamples') and any(s in str(err) for s in ('npout', 'npstart')):
        return 'index-cols-not-added-uncleaned'
    return 'load-fails-' + type(err).__name__


def classify_values(c, request):
    if any(x.startswith('sigmavMid') and has_hidden_dependency(x, request) for x in request):
        return 'tempcol-dtype-from-stale-var'
    return 'column-depends-on-request'


class Session:
    """One tree + (cleaned, units): caches the reference loads."""

    def __init__(self, run, truth, cleaned, units, tag):
        self.run, self.truth, self.cleaned, self.units, self.tag = run, truth, cleaned, units, tag
        self.refs = {}

    def ref(self, subkey, sub):
        if subkey not in self.refs:
            cat, err = catoracle.load(self.truth['path'], cleaned=self.cleaned, convert_units=self.units, fields='all', subsamples=sub)
            self.run.count('reference_loads')
            if err is not None:
                self.run.violation('reference-load-fails-' + type(err).__name__, dict(tree=self.tag, cleaned=self.cleaned, subsamples=repr(sub), error=str(err)[:200]))
                self.refs[subkey] = None
            else:
                self.refs[subkey] = cat
                # the reference itself is anchored to the files once per session: a length and a velocity column against
                # stored value x this catalogue's own header scale (state carried over from a previously loaded catalogue
                # would otherwise shift reference and request alike)
                try:
                    slabs = self.truth['slab_inds']
                    for col, fac in (('x_com', self.truth['box']), ('v_com', self.truth['velz'])):
                        raw = np.concatenate([self.truth['slabs'][s_]['raw'][col] for s_ in slabs]).astype(np.float64)
                        exp = raw * (fac if self.units else 1.0)
                        got = np.asarray(cat.halos[col], dtype=np.float64)
                        self.run.count('reference_anchor_values', got.size)
                        if got.shape != exp.shape or not np.all(np.abs(got - exp) <= 2e-6 * np.abs(exp) + 1e-30):
                            self.run.violation('reference-load-not-this-catalogues-scale', dict(tree=self.tag, column=col, cleaned=self.cleaned, convert_units=self.units, BoxSize=self.truth['box'], VelZSpace_to_kms=self.truth['velz']))
                except KeyError:
                    pass
        return self.refs[subkey]

    def request(self, fields, subkey='none', sub=False, check_cols=None, label='', container=None, verbose=False):
        run = self.run
        kw = dict(cleaned=self.cleaned, convert_units=self.units, fields=list(fields) if not isinstance(fields, str) else fields, subsamples=sub)
        if container == 'tuple':
            kw['fields'] = tuple(fields)
        elif container == 'generator':
            kw['fields'] = (f for f in list(fields))
        elif container == 'iterator':
            kw['fields'] = iter(list(fields))
        elif container == 'dict_keys':
            kw['fields'] = {f: None for f in fields}.keys()
        elif container == 'ndarray':
            kw['fields'] = np.array(list(fields))
        self.nreq = getattr(self, 'nreq', 0) + 1
        if verbose or self.nreq % 9 == 4:
            kw['verbose'] = True  # verbose mode only reports; every 9th request of whatever class runs with it
            label = (label + '+verbose') if not verbose else label
        desc = dict(tree=self.tag, request=list(fields) if not isinstance(fields, str) else fields, cleaned=self.cleaned, convert_units=self.units, subsamples=repr(sub), kind=label)
        run.progress(desc)
        run.ev()
        run.count('loads')
        import contextlib
        import io

        with contextlib.redirect_stdout(io.StringIO()):
            cat, err = catoracle.load(self.truth['path'], **kw)
        req = list(fields) if not isinstance(fields, str) else []
        if err is not None:
            run.violation(classify(err, req, kw), dict(error=f'{type(err).__name__}: {err}'[:300], **desc))
            return
        ref = self.ref(subkey, sub)
        if ref is None:
            return
        cols = check_cols if check_cols is not None else req
        hidden = False
        if sub:
            # the re-indexed columns describe the loaded subsample table: slices back to back, A before B, ending at its length
            H = cat.halos
            off = 0
            for ab in 'AB':
                if f'npstart{ab}' in H.colnames and f'npout{ab}' in H.colnames and (sub is True or sub.get(ab)):
                    st, n = np.asarray(H[f'npstart{ab}']).astype(np.int64), np.asarray(H[f'npout{ab}']).astype(np.int64)
                    run.count('index_column_invariants_checked')
                    if len(st) and not (st[0] == off and np.array_equal(st[1:], st[:-1] + n[:-1])):
                        i = 0 if st[0] != off else int(np.nonzero(st[1:] != st[:-1] + n[:-1])[0][0]) + 1
                        run.violation('index-columns-not-back-to-back', dict(subsample=ab, row=i, npstart=int(st[i]), expected=int(off if i == 0 else st[i - 1] + n[i - 1]), **desc))
                        break
                    off += int(n.sum())
            else:
                if off != len(cat.subsamples) and off:
                    run.violation('index-columns-not-back-to-back', dict(problem='slices do not end at the length of the subsample table', sum_npout=off, table_rows=len(cat.subsamples), **desc))
        for c in cols:
            rn = result_name(c, self.cleaned)
            if self.cleaned and c == 'N':
                rn = 'N'
            if rn not in cat.halos.colnames:
                # index columns consumed by subsample loading (the *_merge ones) legitimately disappear
                if sub and c in INDEXCOLS and c.endswith('_merge'):
                    continue
                run.violation('requested-column-missing', dict(column=c, got=cat.halos.colnames[:12], **desc))
                continue
            if rn not in ref.halos.colnames:
                continue
            a, b = np.asarray(cat.halos[rn]), np.asarray(ref.halos[rn])
            run.count('columns_compared')
            # loading subsamples re-indexes the npstart/npout columns and nothing else: every other column also equals the load without subsamples
            if sub and c not in INDEXCOLS and not (self.cleaned and c == 'N'):
                ref0 = self.ref('none', False)
                if ref0 is not None and rn in ref0.halos.colnames:
                    b0 = np.asarray(ref0.halos[rn])
                    run.count('columns_compared_with_no_subsample_load')
                    if not catoracle.eq_nan(a, b0):
                        bad0 = int(np.argwhere(~((a == b0) | ((a != a) & (b0 != b0))).reshape(len(a), -1).all(axis=1))[0][0]) if a.shape == b0.shape else -1
                        run.violation('column-depends-on-subsample-selection', dict(column=c, row=bad0, **desc))
            if has_hidden_dependency(c, req):
                hidden = True
            if not catoracle.eq_nan(a, b):
                info = dict(column=c, dtype_got=str(a.dtype), dtype_ref=str(b.dtype), shape_got=list(a.shape), shape_ref=list(b.shape))
                if a.shape == b.shape:
                    bad = ~((a == b) | (np.isnan(a) & np.isnan(b))) if a.dtype.kind == 'f' else (a != b)
                    i = np.argwhere(bad)[0]
                    info.update(row=int(i[0]), got=a[tuple(i)], ref=b[tuple(i)], nbad=int(bad.sum()))
                run.violation(classify_values(c, req), dict(info, **desc))
            pc = 0 if (a.size == 0 or a.dtype.itemsize < 4) else core.poison_count(a.reshape(len(a), -1)[:, 0])
            if pc:
                run.violation('halo-column-unwritten-rows', dict(column=c, rows=pc, **desc))
        if hidden:
            run.nt((self.tag, self.cleaned, self.units, subkey, tuple(req)))


def tree_session(run, rng, k, quick):
    from abacusnbody.data import compaso_halo_catalog as chc

    user = list(chc.user_dt.names)
    progen = list(chc.clean_dt_progen.names)
    truth = gen_catalog.make_tree(rng, nslab=int(rng.integers(1, 4)), halos_per_slab=None, box=float(rng.choice([500.0, 2000.0])), velz=float(rng.choice([37.0, 1234.5])), smallratio=True, nprev=int(rng.integers(1, 4)))
    subsel = [dict(A=True, pid=True), dict(B=True, rv=True), True, dict(A=True, B=True, pos=True)][k % 4]
    try:
        for cleaned in (True, False):
            units = not (k % 3 == 2 and cleaned)
            S = Session(run, truth, cleaned, units, k)
            names = user + (progen if cleaned else [])
            # every column alone; alternate subsample selection
            for i, c in enumerate(names):
                if quick and (i + k) % 2:
                    with_sub = False
                else:
                    with_sub = (i + k) % 4 == 0
                if with_sub:
                    S.request([c], 'sel', subsel, label='alone+subsamples')
                else:
                    S.request([c], label='alone')
                if run.too_many():
                    return
            # [c]+others / others+[c]
            npairs = 40 if quick else 300
            for _ in range(npairs):
                c = names[int(rng.integers(0, len(names)))]
                others = [names[int(j)] for j in rng.choice(len(names), int(rng.integers(1, 5)), replace=False)]
                others = [o for o in others if o != c]
                req = [c] + others if rng.random() < 0.5 else others + [c]
                if rng.random() < 0.3:
                    S.request(req, 'sel', subsel, label='with-others+subsamples')
                else:
                    S.request(req, label='with-others')
            # every derived column with each column it is computed from, both orders (deterministic)
            import re as _re

            for c in [n for n in names if n.startswith(DERIVED_PREFIXES)]:
                m = _re.search(r'(_(?:L2)?com)$', c)
                if not m:
                    continue
                com = m[1]
                bases = []
                if c.startswith(('sigmavM', 'sigmavrad', 'sigmavtan')):
                    bases = ['sigmav3d' + com] + (['sigmavMin' + com, 'sigmavMaj' + com] if c.startswith('sigmavMid') else [])
                elif c.startswith(('r1', 'r2', 'r3', 'r5', 'r6', 'r7', 'r9', 'rvcirc', 'sigmar_L', 'sigmar_c')):
                    bases = ['r100' + com]
                for b in bases:
                    if b in names and b != c:
                        S.request([c, b], label='derived-with-base')
                        S.request([b, c], label='base-with-derived')
            # derived columns paired with every other column (ordered pairs)
            derived = [n for n in names if n.startswith(DERIVED_PREFIXES)]
            pairs = [(c, d) for c in derived for d in names if d != c]
            sel = rng.choice(len(pairs), min(len(pairs), 40 if quick else 1500), replace=False)
            for j in sel:
                c, d = pairs[int(j)]
                S.request([c, d] if rng.random() < 0.5 else [d, c], label='ordered-pair')
            # random k-subsets and the default set
            for _ in range(25 if quick else 300):
                kk = int(rng.integers(2, 12))
                req = [names[int(j)] for j in rng.choice(len(names), kk, replace=False)]
                if rng.random() < 0.4:
                    S.request(req, 'sel', subsel, label='subset+subsamples')
                else:
                    S.request(req, label='subset')
            # every ordered pair of the merger-history columns (their shapes differ: per-halo scalars, vectors, one entry per earlier epoch)
            if cleaned:
                mp = [n for n in progen if n.endswith('_mainprog')]
                for a_ in mp:
                    for b_ in mp:
                        if a_ != b_:
                            S.request([a_, b_], label='mainprog-ordered-pair')
            # the request given as a bare name, a tuple (documented: str or list of str, 'any other iter, like tuple'); verbose mode (reports only)
            for c in ('x_com', 'sigmavMid_L2com', 'N', 'r25_L2com', 'id') + (('N_merge',) if cleaned else ()):
                S.request(c, check_cols=[c], label='bare-string')
            S.request(['v_com', 'sigmavMaj_com', 'id'], container='tuple', label='tuple')
            # ... and as a one-shot iterable (generator, iterator) or a dict view
            S.request(['x_com', 'r50_com', 'id'], container='generator', label='generator')
            S.request(['sigmavMin_L2com', 'N'] + (['N_merge'] if cleaned else []), container='iterator', label='iterator')
            S.request(['v_L2com', 'id', 'rvcirc_max_com'], container='dict_keys', label='dict-keys')
            # the same columns through a filtered load (rows dropped in the middle of every file): a kept row carries, in every column,
            # the values that row has in the unfiltered load
            allref = S.ref('none', False)
            if allref is not None and 'id' in allref.halos.colnames and len(allref.halos):
                keepf = lambda h: np.asarray(h['id']) % 3 != 1  # noqa: E731
                run.ev()
                run.count('loads')
                catf, errf = catoracle.load(S.truth['path'], cleaned=cleaned, convert_units=S.units, fields='all', filter_func=keepf)
                descf = dict(tree=S.tag, request='all', cleaned=cleaned, convert_units=S.units, kind='filtered (id % 3 != 1)')
                if errf is not None:
                    run.violation('load-fails-' + type(errf).__name__, dict(error=f'{type(errf).__name__}: {errf}'[:300], **descf))
                else:
                    m = np.asarray(allref.halos['id']) % 3 != 1
                    for cn in catf.halos.colnames:
                        if cn in allref.halos.colnames:
                            run.count('columns_compared')
                            run.count('filtered_load_columns_compared')
                            if len(catf.halos) != int(m.sum()) or not catoracle.eq_nan(np.asarray(catf.halos[cn]), np.asarray(allref.halos[cn])[m]):
                                run.violation('column-value-depends-on-request', dict(column=cn, problem='differs between the filtered and the unfiltered load of the same rows', rows_kept=int(m.sum()), **descf))
                                break
            S.request(['sigmar_com', 'N'], verbose=True, label='verbose')
            S.request(['npstartA', 'x_com'], 'sel', subsel, verbose=True, label='verbose+subsamples')
            S.request('DEFAULT_FIELDS', check_cols=[n for n in user if n != 'N'] + (['N_total'] if cleaned else ['N']), label='default')
            S.request('DEFAULT_FIELDS', 'sel', subsel, check_cols=[n for n in user if n != 'N'], label='default+subsamples')
            # both subsamples together (A laid out before B), whatever the tree's own selection is
            for req, sb in ((['N'], True), (['npoutA', 'npstartB', 'id'], dict(A=True, B=True, pos=True)), (['npstartA', 'npoutA', 'npstartB', 'npoutB'], dict(B=True, A=True, pid=True))):
                S.request(req, 'both' + repr(sb), sb, label='both-subsamples')
            # subsamples requested with columns that do not include the index columns
            for req in (['N'], ['id', 'x_com'], ['r25_L2com']):
                S.request(req, 'sel', subsel, label='no-index-cols+subsamples')
            if run.too_many():
                return
        # the same request *object* reused across successive loads (state must not travel in the caller's list)
        for req0, seq in ((['N', 'x_com', 'id', 'r50_com'], (True, False, True)), (['x_com', 'N_merge', 'is_merged_to'], (True, True)), (('v_com', 'N'), (True, False))):
            req = list(req0) if isinstance(req0, list) else req0
            for j, cleaned in enumerate(seq):
                desc = dict(tree=k, request=list(req0), cleaned=cleaned, kind=f'reused-request-object load #{j + 1}')
                run.progress(desc)
                run.ev()
                run.count('loads')
                cat, err = catoracle.load(truth['path'], cleaned=cleaned, fields=req)
                if err is not None:
                    run.violation('reused-request-load-fails-' + type(err).__name__, dict(error=str(err)[:200], **desc))
                    break
                if list(req) != list(req0):
                    run.violation('caller-request-list-mutated', dict(now=list(req), **desc))
                    break
                missing = [c for c in req0 if result_name(c, cleaned) not in cat.halos.colnames and not (cleaned and c == 'N')]
                if missing or (cleaned and 'N' in req0 and 'N' not in cat.halos.colnames):
                    run.violation('requested-column-missing', dict(missing=missing, got=cat.halos.colnames, **desc))
                    break
                run.nt((k, 'reused', tuple(req0), j))
        # passthrough class (raw names)
        passthrough_class(run, rng, truth, k)
    finally:
        shutil.rmtree(truth['root'], ignore_errors=True)


def passthrough_class(run, rng, truth, k):
    raw_names = list(truth['slabs'][truth['slab_inds'][0]]['raw'].keys())
    clean_names = list(truth['slabs'][truth['slab_inds'][0]]['clean'].keys())
    ref, err = catoracle.load(truth['path'], cleaned=True, passthrough=True, fields='all')
    run.count('loads')
    if err is not None:
        run.violation('passthrough-' + type(err).__name__, dict(request='all', error=str(err)[:200]))
        return
    for t in range(6):
        req = [raw_names[int(j)] for j in rng.choice(len(raw_names), 3, replace=False)] + [clean_names[int(j)] for j in rng.choice(len(clean_names), 1)]
        sub = [False, dict(A=True, rvint=True), dict(B=True, packedpid=True)][t % 3]
        kw = dict(cleaned=True, passthrough=True, fields=req, subsamples=sub)
        desc = dict(tree=k, request=req, passthrough=True, subsamples=repr(sub))
        run.progress(desc)
        run.ev()
        run.count('loads')
        cat, err = catoracle.load(truth['path'], **kw)
        if err is not None:
            run.violation(classify(err, req, kw), dict(error=f'{type(err).__name__}: {err}'[:300], **desc))
            continue
        run.nt(('passthrough', k, t))
        for c in req:
            if c in INDEXCOLS and sub:
                continue
            if c not in cat.halos.colnames:
                run.violation('requested-column-missing', dict(column=c, **desc))
            elif not catoracle.eq_nan(np.asarray(cat.halos[c]), np.asarray(ref.halos[c])):
                run.violation('passthrough-column-depends-on-request', dict(column=c, **desc))


def lc_session(run, rng, k):
    """light-cone layout: every column valid there, alone / with others, against fields='all'."""
    from abacusnbody.data import compaso_halo_catalog as chc

    L = gen_catalog.make_lc_tree(rng, H=int(rng.integers(5, 40)), smallratio=True)
    try:
        names = [n for n in chc.user_dt.names if 'L2' in n] + list(chc.halo_lc_dt.names)
        names = list(dict.fromkeys(names))
        ref, err = catoracle.load(L['path'], fields='all')
        run.count('reference_loads')
        if err is not None:
            run.violation('reference-load-fails-' + type(err).__name__, dict(layout='light_cone', error=str(err)[:200]))
            return
        reqs = [[c] for c in names]
        for _ in range(30 if run.quick else 300):
            c = names[int(rng.integers(0, len(names)))]
            others = [names[int(j)] for j in rng.choice(len(names), int(rng.integers(1, 4)), replace=False) if names[int(j)] != c]
            reqs.append([c] + others if rng.random() < 0.5 else others + [c])
        for req in reqs:
            for sub in ((False,) if len(req) > 1 or run.quick else (False, True)):
                desc = dict(tree=f'lc{k}', layout='light_cone', request=req, subsamples=repr(sub))
                run.progress(desc)
                run.ev()
                run.count('loads')
                cat, err = catoracle.load(L['path'], fields=list(req), subsamples=sub)
                if err is not None:
                    run.violation('lc-load-fails-' + type(err).__name__, dict(error=f'{type(err).__name__}: {err}'[:300], **desc))
                    continue
                run.nt(('lc', k, tuple(req), repr(sub)))
                for c in req:
                    if c not in cat.halos.colnames:
                        run.violation('requested-column-missing', dict(column=c, got=cat.halos.colnames[:12], **desc))
                    elif c in ref.halos.colnames and not catoracle.eq_nan(np.asarray(cat.halos[c]), np.asarray(ref.halos[c])):
                        run.violation('column-depends-on-request', dict(column=c, **desc))
                    run.count('columns_compared')
    finally:
        shutil.rmtree(L['root'], ignore_errors=True)


def check(run):
    catoracle.fast_io()
    rng = run.rng(0)
    ntree = 1 if run.quick else 8
    # another catalogue (other BoxSize / velocity scale) is loaded in this process before anything is compared
    decoy = gen_catalog.make_tree(run.rng(9), nslab=1, halos_per_slab=[5], box=77.0, velz=5555.0)
    try:
        for cl in (True, False):
            catoracle.load(decoy['path'], cleaned=cl, fields='all', subsamples=True)
            run.count('decoy_loads')
    finally:
        import shutil as _sh

        _sh.rmtree(decoy['root'], ignore_errors=True)
    for k in range(ntree):
        tree_session(run, rng, k, run.quick)
        if run.too_many():
            break
    for k in range(1 if run.quick else 6):
        lc_session(run, rng, k)
    run.sample(dict(request=['sigmavMid_com', 'id'], cleaned=False, kind='ordered-pair', note='derived column whose dependencies were not requested'))
    run.sample(dict(request=['N'], cleaned=False, subsamples="{'A': True, 'pid': True}", kind='no-index-cols+subsamples'))


def replay(run, data):
    check(run)
