"""C18 — every eigenvector code decodes to a distinct orthonormal triad.

Exhaustive execution of the real decoder (directly and through the catalogue column loaders) on
all 65 340 valid codes; oracles: orthonormality, handedness, distinctness, angular coverage."""

import numpy as np

LEVEL = 'exploration'
RULE = (
    'all 65340 valid codes (12 caps x 121 cells x 45 azimuth bins) through the real _unpack_euler16, in one call, in shuffled order and in '
    'random sub-batches (a vectorised decoder must not depend on batch composition), and through the real eigenvector column loaders of a generated '
    'catalogue holding every code; coverage probed with random + adversarial directions. non-trivial = distinct codes decoded and checked'
)
RULE += (
    ' Added after seeded round 9: filtered loads of the eigenvector columns (rows dropped in the middle / at the start / all but one); the process\'s first decode issued from 2-16 threads at once in fresh child processes.'
)
ASSUMPTIONS = ['coverage bound 4.0 degrees up to sign (statement: "about 4 degrees"; observed covering radius 3.1)', 'distinctness judged after rounding to 1e-9']

NCODES = 12 * 121 * 45


def check_triads(run, codes, minor, middle, major, tag):
    M = np.stack([minor, middle, major], axis=1).astype(np.float64)  # (N,3,3)
    gram = np.einsum('nij,nkj->nik', M, M)
    err = np.abs(gram - np.eye(3)).max(axis=(1, 2))
    run.count('triads_checked', len(codes))
    bad = ~(err <= 1e-12)
    if bad.any():
        i = int(np.argmax(bad))
        return run.violation('euler-not-orthonormal', dict(path=tag, code=int(codes[i]), gram=gram[i].tolist(), nbad=int(bad.sum())))
    cr = np.cross(minor, major)
    herr = np.abs(cr - middle).max(axis=1)
    bad = ~(herr <= 1e-12)
    if bad.any():
        i = int(np.argmax(bad))
        return run.violation('euler-handedness', dict(path=tag, code=int(codes[i]), minor_x_major=cr[i].tolist(), middle=middle[i].tolist(), nbad=int(bad.sum())))
    return False


def check(run):
    from abacusnbody.data import compaso_halo_catalog as chc

    rng = run.rng(0)
    codes = np.arange(NCODES, dtype=np.uint16)
    minor, middle, major = chc._unpack_euler16(codes)
    run.ev(NCODES)
    if check_triads(run, codes, minor, middle, major, 'direct'):
        return
    for c in codes[:: NCODES // 2000]:
        run.nt(int(c))
    run.extra['codes_decoded'] = NCODES
    run.sample(dict(code=0, minor=minor[0].tolist(), middle=middle[0].tolist(), major=major[0].tolist()))
    run.sample(dict(code=NCODES - 1, minor=minor[-1].tolist(), middle=middle[-1].tolist(), major=major[-1].tolist()))

    # distinct codes -> distinct triads
    T = np.round(np.concatenate([minor, middle, major], axis=1), 9) + 0.0
    uniq = np.unique(T, axis=0)
    run.extra['distinct_triads'] = int(len(uniq))
    if len(uniq) != NCODES:
        _, inv, cnt = np.unique(T, axis=0, return_inverse=True, return_counts=True)
        dup = np.nonzero(cnt[inv.ravel()] > 1)[0][:4]
        run.violation('euler-duplicate-triads', dict(distinct=int(len(uniq)), expected=NCODES, example_codes=[int(x) for x in dup]))
    # distinct major axes: 12*121, each shared by exactly 45 codes
    Mj = np.round(major, 9) + 0.0
    um, cnt = np.unique(Mj, axis=0, return_counts=True)
    if len(um) != 12 * 121 or not (cnt == 45).all():
        run.violation('euler-major-axes', dict(distinct_major=int(len(um)), expected=12 * 121, counts=sorted(set(int(c) for c in cnt))[:5]))
    # no two major axes equal up to sign
    key = np.round(um * np.sign(um[np.arange(len(um)), np.argmax(np.abs(um) > 1e-6, axis=1)])[:, None], 9)
    if len(np.unique(key, axis=0)) != len(um):
        run.violation('euler-major-axes', dict(problem='two caps decode to antipodal/equal major axes'))

    # batch independence: shuffled order and random sub-batches give the same per-code triad
    perm = rng.permutation(NCODES)
    mi2, md2, mj2 = chc._unpack_euler16(codes[perm])
    run.ev(NCODES)
    if not (np.array_equal(mi2, minor[perm]) and np.array_equal(md2, middle[perm]) and np.array_equal(mj2, major[perm])):
        run.violation('euler-batch-dependence', dict(problem='shuffled batch differs'))
    for k in range(30 if run.quick else 300):
        sub = rng.integers(0, NCODES, int(rng.integers(1, 50))).astype(np.uint16)
        a, b, c = chc._unpack_euler16(sub)
        run.ev(len(sub))
        if not (np.array_equal(a, minor[sub]) and np.array_equal(b, middle[sub]) and np.array_equal(c, major[sub])):
            run.violation('euler-batch-dependence', dict(codes=sub.tolist()[:10]))
            break
    # the same input buffer refilled in place, and same-length fresh arrays one after the other (a freed block is handed out
    # again at the same address): each decode depends on the codes only; results handed out earlier stay what they were
    for n in (1, 10, 500):
        buf = np.empty(n, dtype=np.uint16)
        held = None
        for r in range(15 if run.quick else 60):
            new = rng.integers(0, NCODES, n)
            if r % 5 in (1, 2):  # two consecutive calls on the very same buffer, refilled in between
                buf[:] = new
                arg = buf
            else:  # consecutive calls on fresh arrays of the same length
                arg = new.astype(np.uint16)
            a, b, c = chc._unpack_euler16(arg)
            run.ev(n)
            run.nt(('buffer-reuse', n, r % 2))
            if not (np.array_equal(a, minor[new]) and np.array_equal(b, middle[new]) and np.array_equal(c, major[new])):
                run.violation('euler-batch-dependence', dict(problem='decode of a refilled / same-address input differs', n=n, call=r, codes=new[:6].tolist()))
                break
            if held is not None and not (np.array_equal(held[0], held[3][0]) and np.array_equal(held[1], held[3][1]) and np.array_equal(held[2], held[3][2])):
                run.violation('euler-earlier-result-changed', dict(n=n, call=r))
                break
            held = (a, b, c, (a.copy(), b.copy(), c.copy()))
            del arg
    # one call with more codes than there are distinct ones (row numbers beyond 2^16)
    many = np.concatenate([codes, rng.integers(0, NCODES, 40000).astype(np.uint16)])[rng.permutation(NCODES + 40000)]
    a, b, c = chc._unpack_euler16(many)
    run.ev(len(many))
    run.nt(('many', len(many)))
    if not (np.array_equal(a, minor[many], equal_nan=True) and np.array_equal(b, middle[many], equal_nan=True) and np.array_equal(c, major[many], equal_nan=True)):
        bad = -1
        if a.shape == b.shape == c.shape == major[many].shape:
            rows = np.nonzero(~((a == minor[many]) | np.isnan(minor[many])).all(axis=1) | ~((b == middle[many]) | np.isnan(middle[many])).all(axis=1) | ~((c == major[many]) | np.isnan(major[many])).all(axis=1))[0]
            bad = int(rows[0]) if len(rows) else -1
        run.violation('euler-batch-dependence', dict(problem='batch of more than 65536 codes differs', n=len(many), first_bad_row=bad))
    # the codes may arrive in any integer dtype that can hold them
    for dt in (np.uint16, np.int32, np.int64, np.uint32, np.uint64):
        sub = rng.integers(0, NCODES, 5000)
        a, b, c = chc._unpack_euler16(sub.astype(dt))
        run.ev(len(sub))
        run.nt(('dtype', np.dtype(dt).str))
        if not (np.array_equal(a, minor[sub]) and np.array_equal(b, middle[sub]) and np.array_equal(c, major[sub])):
            run.violation('euler-input-dtype-dependence', dict(dtype=np.dtype(dt).str))
    # single-cap batches (boolean-mask assignment paths see only one cap)
    for cap in range(12):
        sub = codes[cap * 121 * 45 : (cap + 1) * 121 * 45]
        a, b, c = chc._unpack_euler16(sub)
        run.ev(len(sub))
        if not (np.array_equal(a, minor[sub]) and np.array_equal(c, major[sub])):
            run.violation('euler-batch-dependence', dict(cap=cap))

    # coverage of directions up to sign
    ndir = 4_000_000 if run.quick else 40_000_000
    worst = 0.0
    worst_dir = None
    ch = 500000
    from scipy.spatial import cKDTree

    tree = cKDTree(np.concatenate([um, -um]))
    done = 0
    # adversarial directions first: cube corners/edges/face centres and cap boundaries
    adv = []
    for a in (-1, 0, 1):
        for b in (-1, 0, 1):
            for c in (-1, 0, 1):
                if (a, b, c) != (0, 0, 0):
                    adv.append((a, b, c))
    t = np.tan(np.pi / 8)
    for s1 in (-1, 1):
        for s2 in (-1, 1):
            adv += [(1, s1 * t, s2 * t), (s1 * t, 1, s2 * t), (s1 * t, s2 * t, 1), (1, s1 * t, 0), (0, 1, s1 * t), (s1 * t, 0, 1), (1, s1 * 1.0, s2 * t)]
    adv = np.array(adv, dtype=np.float64)
    while done < ndir:
        n = min(ch, ndir - done)
        d = rng.standard_normal((n, 3))
        if done == 0:
            d[: len(adv)] = adv
        d /= np.linalg.norm(d, axis=1)[:, None]
        chord, _ = tree.query(d)  # nearest of +-major axes; chord = 2 sin(angle/2)
        ang = np.degrees(2 * np.arcsin(np.clip(chord / 2, 0, 1)))
        i = int(np.argmax(ang))
        if ang[i] > worst:
            worst, worst_dir = float(ang[i]), d[i].tolist()
        done += n
    run.ev(ndir)
    run.count('directions_probed', ndir)
    run.extra['max_angle_to_nearest_major_axis_deg'] = worst
    if worst > 4.0:
        run.violation('euler-coverage-hole', dict(max_angle_deg=worst, direction=worst_dir))

    # through the real column loaders
    through_loaders(run, codes, minor, middle, major)
    first_use_from_threads(run)
    run.exhaustive = True


def through_loaders(run, codes, minor, middle, major):
    """Load a generated catalogue whose *_eigenvecs_*_u16 raw columns hold every code."""
    import shutil

    try:
        from ..gen_catalog import make_euler_catalog
    except Exception as e:  # generator not available
        run.note_inconclusive(f'catalogue generator unavailable: {e}')
        return
    from abacusnbody.data.compaso_halo_catalog import CompaSOHaloCatalog

    tree = make_euler_catalog(run.rng(5))
    try:
        stems = ['sigmar_eigenvecs', 'sigmav_eigenvecs', 'sigman_eigenvecs']
        fields = [f'{s}{w}{c}' for s in stems for w in ('Min', 'Mid', 'Maj') for c in ('_com', '_L2com')]
        cat = CompaSOHaloCatalog(tree['path'], cleaned=False, fields=fields)
        for s in stems:
            for c in ('_com', '_L2com'):
                raw = tree['raw'][f'{s}{c}_u16']
                mi = np.asarray(cat.halos[f'{s}Min{c}'], dtype=np.float64)
                md = np.asarray(cat.halos[f'{s}Mid{c}'], dtype=np.float64)
                mj = np.asarray(cat.halos[f'{s}Maj{c}'], dtype=np.float64)
                run.ev(len(raw))
                run.nt(('loader', s, c))
                # float32 columns: compare with the direct decode at float32 resolution
                for name, got, ref in (('Min', mi, minor), ('Mid', md, middle), ('Maj', mj, major)):
                    if not np.allclose(got, ref[raw], rtol=0, atol=2e-7):
                        i = int(np.argmax(np.abs(got - ref[raw]).max(axis=1)))
                        run.violation('euler-loader-mismatch', dict(column=f'{s}{name}{c}', code=int(raw[i]), got=got[i].tolist(), direct=ref[raw][i].tolist()))
                # one column alone must give the same as all together
        # every axis column alone and in the partial combinations (the loader decodes a triad per request)
        for s in stems:
            for c in ('_com', '_L2com'):
                names = {w: f'{s}{w}{c}' for w in ('Min', 'Mid', 'Maj')}
                for combo in (('Min',), ('Mid',), ('Maj',), ('Mid', 'Maj'), ('Min', 'Maj'), ('Maj', 'Mid')):
                    req = [names[w] for w in combo]
                    cat1 = CompaSOHaloCatalog(tree['path'], cleaned=False, fields=req)
                    run.ev()
                    run.nt(('loader-subset', s, c, combo))
                    for f in req:
                        a = np.asarray(cat1.halos[f], dtype=np.float64)
                        if not np.array_equal(cat1.halos[f], cat.halos[f]):
                            i = int(np.argmax(np.abs(a - np.asarray(cat.halos[f], dtype=np.float64)).max(axis=1)))
                            run.violation('euler-loader-mismatch', dict(column=f, requested=req, problem='axis differs from the all-columns load', row=i, code=int(tree['raw'][f'{s}{c}_u16'][i]), norm=float(np.linalg.norm(a[i]))))
                            break
                        nrm = np.linalg.norm(a, axis=1)
                        if (np.abs(nrm - 1) > 1e-6).any():
                            run.violation('euler-not-orthonormal', dict(path='loader', column=f, requested=req, worst_norm=float(nrm[np.argmax(np.abs(nrm - 1))])))
                            break
        run.count('loader_columns_checked', len(fields))
        # the same columns through a filtered load: the kept rows carry the decode of *their* codes (filters that drop rows in the
        # middle, at the start, everything but one row)
        nrow = len(cat.halos)
        for label, keep in (('every-third-dropped', lambda h: np.arange(len(h)) % 3 != 1), ('first-rows-dropped', lambda h: np.arange(len(h)) >= 7), ('one-row-kept', lambda h: np.arange(len(h)) == len(h) // 2)):
            catf = CompaSOHaloCatalog(tree['path'], cleaned=False, fields=fields, filter_func=keep)
            mask = keep(cat.halos)
            run.ev()
            run.nt(('loader-filtered', label))
            for f in fields:
                run.count('filtered_loader_columns_checked')
                if len(catf.halos) != int(mask.sum()) or not np.array_equal(np.asarray(catf.halos[f]), np.asarray(cat.halos[f])[mask]):
                    run.violation('euler-loader-mismatch', dict(column=f, problem='filtered load differs from the same rows of the unfiltered load', filter=label, rows_kept=int(mask.sum()), rows=nrow))
                    break
    finally:
        shutil.rmtree(tree['root'], ignore_errors=True)
    # several files with degenerate contents: a single halo, all codes equal (0, the largest code, one in between), then a mixed file
    from ..gen_catalog import make_euler_files

    rng = run.rng(6)
    per_file = [[0], [0, 0, 0], [NCODES - 1] * 4, [31337] * 2, rng.integers(0, NCODES, 50), [0], rng.integers(0, 45, 7), [44] * 3]
    tree = make_euler_files(rng, per_file)
    try:
        cat = CompaSOHaloCatalog(tree['path'], cleaned=False, fields=fields)
        raw = tree['codes'].astype(np.int64)
        for s_ in stems:
            for c in ('_com', '_L2com'):
                for name, ref in (('Min', minor), ('Mid', middle), ('Maj', major)):
                    got = np.asarray(cat.halos[f'{s_}{name}{c}'], dtype=np.float64)
                    run.ev(len(raw))
                    if got.shape != ref[raw].shape or not np.allclose(got, ref[raw], rtol=0, atol=2e-7):
                        i = int(np.argmax(np.abs(got - ref[raw]).max(axis=1))) if got.shape == ref[raw].shape else 0
                        run.violation('euler-loader-mismatch', dict(column=f'{s_}{name}{c}', files='degenerate contents (single halo, all-equal codes)', row=i, code=int(raw[i]), got=got[i].tolist() if got.ndim == 2 else None, direct=ref[raw][i].tolist()))
                        break
        run.nt(('loader-degenerate-files', len(per_file)))
    finally:
        shutil.rmtree(tree['root'], ignore_errors=True)


def first_use_case(case):
    """Runs in a fresh child process: the process's *first* eigenvector decode is issued from several Python threads at once
    (a thread pool over files does exactly that); every thread's triads must equal what a later, quiet call returns."""
    import threading

    from abacusnbody.data import compaso_halo_catalog as chc

    rng = np.random.default_rng(case['seed'])
    nth = case['threads']
    subs = [rng.integers(0, NCODES, case['n']).astype(np.uint16) for _ in range(nth)]
    res = [None] * nth
    bar = threading.Barrier(nth)

    def work(i):
        bar.wait()
        try:
            res[i] = chc._unpack_euler16(subs[i])
        except Exception as e:  # noqa
            res[i] = e

    ths = [threading.Thread(target=work, args=(i,)) for i in range(nth)]
    [t.start() for t in ths]
    [t.join() for t in ths]
    wrong, errors = 0, []
    for i in range(nth):
        if isinstance(res[i], Exception):
            errors.append(f'{type(res[i]).__name__}: {res[i]}'[:200])
            continue
        quiet = chc._unpack_euler16(subs[i])
        wrong += int(any(not np.array_equal(a, b, equal_nan=True) for a, b in zip(res[i], quiet)))
        M = np.stack(res[i], axis=1).astype(np.float64)
        wrong += int(not (np.abs(np.einsum('nij,nkj->nik', M, M) - np.eye(3)).max() <= 1e-12))
    return dict(wrong=wrong, errors=errors, threads=nth)


def first_use_from_threads(run):
    from .. import sandbox

    cases = [dict(seed=int(run.seed) * 100 + k, threads=t, n=40000) for k, t in enumerate((2, 8, 4) if run.quick else (2, 8, 4, 16, 2, 8, 3, 5))]
    for case in cases:
        r = sandbox.run_batch('vlib.checks.c18:first_use_case', [case], timeout=600, label='first-use', poison=False)[0]
        run.ev()
        if not r or r.get('status') != 'ok':
            if r and r.get('status') == 'exception':
                run.violation('euler-first-use-from-threads', dict(case=case, error=f"{r.get('etype')}: {r.get('msg')}"[:300]))
            else:
                run.note_inconclusive(f'first-use child did not finish: {str(r)[:200]}')
            continue
        run.count('first_use_thread_decodes', case['threads'])
        run.nt(('first-use-threads', case['threads']))
        res = r['result']
        if res['wrong'] or res['errors']:
            run.violation('euler-first-use-from-threads', dict(case=case, threads_with_wrong_triads=res['wrong'], errors=res['errors'][:3]))


def replay(run, data):
    check(run)
