"""C08 — every Fourier mode is binned exactly once into the right (k, mu) bin.

Full-mesh reference: all n^3 modes enumerated with numpy.fft.fftfreq, each read from the
half-complex mesh through Hermitian symmetry, binned in float64.  The mesh holds distinct random
integers and the kernels are run with dtype=float64, so per-bin sums are exact and identify *which*
modes were included, not only how many."""

import warnings

import numpy as np

from .. import core

LEVEL = 'exploration'
RULE = (
    'binnings by the real bin_kmu / bin_kppi / calc_pk_from_deltak / project_3d_to_poles over mesh sizes (odd and even), k edges (linear from 0, from k_f, log, random, '
    'starting above 0, ending below / at / above Nyquist, beyond every mode), mu bins 1..7, (k_perp,k_par) with pimax below/at/above Nyquist, multipoles, nthread 1..16; '
    'each compared with a full-mesh enumeration. A mode within 4 ulp of a bin edge may fall on either side (counted once). '
    'non-trivial = distinct (kernel, n, edge family, Nmu/Npi, poles, nthread) whose range contains >= 2 bins with modes'
)
RULE += (
    ' Added after seeded round 9: 257-1000 k bins on small meshes (modes far beyond bin 255).'
)
RULE += (
    ' Added after seeded round 10: call history through calc_pk_from_deltak -- consecutive calls in one process with the same nmesh, Lbox, number of k bins and first / last k edge '
    'but other interior k edges (linear, log, quadratic, random), other mu edge values or Nmu, other multipoles, another field or a cross-spectrum, in three different orders; '
    'every returned quantity (power, N_mode, k_avg, binned_poles, N_mode_poles) of every call compared with the enumeration of that call and with the same request made elsewhere in the sequence.'
)
ASSUMPTIONS = [
    'mu edges partition [0,1]; k edges strictly increasing (documented domain)',
    'a mode whose k^2 or mu^2 equals an edge (within 4 ulp of the working dtype) may be counted on either side of that edge, but exactly once',
    'Legendre-weighted sums compared at 2e-5 relative to sum(|w|*(2l+1)) per bin (the kernel evaluates P_l in float32)',
]


def full_mesh(n):
    f = np.rint(np.fft.fftfreq(n) * n).astype(np.int64)
    A, B, C = np.meshgrid(f, f, f, indexing='ij')
    neg = C < 0
    ia = np.where(neg, (-A) % n, A % n)
    ib = np.where(neg, (-B) % n, B % n)
    ic = np.abs(C)
    return A.ravel(), B.ravel(), C.ravel(), ia.ravel(), ib.ravel(), ic.ravel()


def bin_with_ties(val, edges2, eps):
    """[lo,hi) bin index (-1 below, Nb above/at last edge) and alternative index if val is within tolerance of an edge."""
    Nb = len(edges2) - 1
    prim = np.searchsorted(edges2, val, side='right') - 1
    prim = np.where(val >= edges2[-1], Nb, prim)
    alt = prim.copy()
    tol = 4 * eps * np.maximum(np.abs(val), 1e-300)
    for b, e in enumerate(edges2):
        tie = np.abs(val - e) <= tol + 4 * eps * abs(e)
        if tie.any():
            # on edge b: either bin b-1 or bin b
            lo, hi = b - 1, b
            prim = np.where(tie, hi if hi <= Nb else Nb, prim)
            alt = np.where(tie, lo, alt)
    return prim, alt


def legendre(l, mu):
    c = np.zeros(l + 1)
    c[l] = 1
    return np.polynomial.legendre.legval(mu, c)


def reference(n, L, kedges, second_edges, w, mode, poles=(), fourier=True):
    """mode 'kmu': second_edges = mu edges; 'kppi': second_edges = pi edges (k_par), first = k_perp."""
    A, B, C, ia, ib, ic = full_mesh(n)
    dk = 2 * np.pi / L if fourier else L / n
    k2e = (np.asarray(kedges, dtype=np.float64) / dk) ** 2
    vals = w[ia, ib, ic].astype(np.float64)
    eps = np.finfo(np.float64).eps
    if mode == 'kmu':
        kmag2 = (A * A + B * B + C * C).astype(np.float64)
        with np.errstate(divide='ignore', invalid='ignore'):
            mu2 = np.where(kmag2 > 0, (C * C) / kmag2, 0.0)
        m2e = np.asarray(second_edges, dtype=np.float64) ** 2
        p1, a1 = bin_with_ties(kmag2, k2e, eps)
        p2, a2 = bin_with_ties(mu2, m2e, eps)
        # mu == 1 belongs to the last mu bin (domain closed above)
        Nmu = len(m2e) - 1
        # mu == 0 belongs to the first mu bin (domain closed below)
        bot = mu2 <= m2e[0] + 8 * eps
        p2 = np.where(bot, 0, p2)
        a2 = np.where(bot, 0, a2)
        top = mu2 >= m2e[-1] * (1 - 8 * eps)
        p2 = np.where(top & (p2 >= Nmu), Nmu - 1, p2)
        a2 = np.where(top & (a2 >= Nmu), Nmu - 1, a2)
        kabs = np.sqrt(kmag2) * dk
        mu = np.sqrt(mu2)
    else:
        kp2 = (A * A + B * B).astype(np.float64)
        kz2 = (C * C).astype(np.float64)
        p2e = (np.asarray(second_edges, dtype=np.float64) / dk) ** 2
        p1, a1 = bin_with_ties(kp2, k2e, eps)
        p2, a2 = bin_with_ties(kz2, p2e, eps)
        kabs = None
        mu = None
    N1, N2 = len(kedges) - 1, len(second_edges) - 1
    definite = (p1 == a1) & (p2 == a2)
    inside = (p1 >= 0) & (p1 < N1) & (p2 >= 0) & (p2 < N2)
    d = definite & inside
    cnt = np.zeros((N1, N2), dtype=np.int64)
    np.add.at(cnt, (p1[d], p2[d]), 1)
    sw = np.zeros((N1, N2))
    np.add.at(sw, (p1[d], p2[d]), vals[d])
    out = dict(count=cnt, sum=sw)
    if kabs is not None:
        sk = np.zeros((N1, N2))
        np.add.at(sk, (p1[d], p2[d]), kabs[d])
        out['sumk'] = sk
        sp = np.zeros((len(poles), N1))
        spabs = np.zeros((len(poles), N1))
        for ip, l in enumerate(poles):
            pl = (2 * l + 1) * legendre(l, mu)
            np.add.at(sp[ip], p1[d], (vals * pl)[d])
            np.add.at(spabs[ip], p1[d], (np.abs(vals) * np.abs(pl))[d] + np.abs(vals[d]))
        out['sumpoles'] = sp
        out['sumpoles_abs'] = spabs
    # ambiguous modes: which bins could they go to
    amb = ~definite
    maxextra = np.zeros((N1, N2), dtype=np.int64)
    namb_any = 0
    namb_all = 0
    if amb.any():
        for q1, q2 in ((p1, p2), (p1, a2), (a1, p2), (a1, a2)):
            pass
        idx = np.nonzero(amb)[0]
        for m in idx:
            opts = {(int(p1[m]), int(p2[m])), (int(p1[m]), int(a2[m])), (int(a1[m]), int(p2[m])), (int(a1[m]), int(a2[m]))}
            ins = [(x, y) for (x, y) in opts if 0 <= x < N1 and 0 <= y < N2]
            for x, y in ins:
                maxextra[x, y] += 1
            namb_any += bool(ins)
            namb_all += len(ins) == len(opts)
    out.update(maxextra=maxextra, namb_any=namb_any, namb_all=namb_all, nmodes_definite=int(d.sum()))
    return out


def edge_family(rng, fam, n, L, Nk):
    dk = 2 * np.pi / L
    kN = dk * n / 2
    kmax_all = dk * np.sqrt(3) * (n // 2) * 1.01
    if fam == 'lin0_nyq':
        return np.linspace(0, kN, Nk + 1)
    if fam == 'linkf':
        return np.linspace(dk, kN, Nk + 1)
    if fam == 'log':
        return np.geomspace((1 - 1e-4) * dk, kN, Nk + 1)
    if fam == 'random':
        return np.sort(rng.uniform(0, kmax_all, Nk + 1))
    if fam == 'above0_belownyq':
        return np.linspace(0.37 * kN, 0.83 * kN, Nk + 1)
    if fam == 'beyond_nyq':
        return np.linspace(0.013 * dk, kN * rng.uniform(1.05, 1.7), Nk + 1)
    if fam == 'beyond_all':
        return np.linspace(0, kmax_all * 1.3, Nk + 1)
    if fam == 'nyq_shell':
        # a range that starts just inside the Nyquist plane: columns whose only in-range mode sits on kz = n/2
        return np.linspace((n // 2 - 0.52) * dk, kmax_all, Nk + 1)
    if fam == 'notie':
        return np.linspace(0.0131 * dk, kN * 0.9973, Nk + 1)
    if fam == 'notie_wide':
        return np.linspace(0.0131 * dk, kmax_all * 1.1, Nk + 1)
    raise KeyError(fam)


def compare_counts(run, got_cnt, ref, desc, key):
    cnt = ref['count']
    resid = got_cnt.astype(np.int64) - cnt
    bad = (resid < 0) | (resid > ref['maxextra'])
    tot_extra = int(resid.sum())
    run.count('bins_compared', cnt.size)
    run.count('modes_enumerated', ref['nmodes_definite'])
    if bad.any():
        i = np.argwhere(bad)[0]
        return run.violation(key, dict(bin=[int(x) for x in i], count_got=int(got_cnt[tuple(i)]), count_expected=int(cnt[tuple(i)]), allowed_extra_from_edge_ties=int(ref['maxextra'][tuple(i)]), total_got=int(got_cnt.sum()), total_expected_definite=int(cnt.sum()), **desc))
    if not (ref['namb_all'] <= tot_extra <= ref['namb_any']):
        return run.violation(key, dict(problem='edge-tied modes not counted exactly once', extra=tot_extra, allowed=[ref['namb_all'], ref['namb_any']], **desc))
    return False


def classify_kmu(desc, n, kedges, L):
    dk = 2 * np.pi / L
    reach = kedges[-1] / dk
    if n % 2 == 1 and reach > (n - 1) / 2 - 1e-9:
        return 'odd-mesh-fold'
    if n % 2 == 0 and reach > n / 2:
        return 'nyquist-plane-doubled'
    return 'kmu-binning'


def kmu_case(run, ps, rng, n, fam, Nk, Nmu, poles, nthread, L):
    kedges = edge_family(rng, fam, n, L, Nk)
    muedges = np.linspace(0, 1, Nmu + 1) if Nmu != 3 else np.array([0.0, 0.31, 0.77, 1.0])
    w = rng.permutation(n * n * (n // 2 + 1)).reshape(n, n, n // 2 + 1).astype(np.float64) + 1.0
    zero_frac = [0.0, 0.0, 0.3, 0.0, 1.0, 0.0, 0.9][(n + Nk + Nmu + len(poles)) % 7]
    if zero_frac:
        w[rng.random(w.shape) < zero_frac] = 0.0  # a mode whose mesh value is exactly 0 (filtered / masked / empty mesh) is still a mode of its bin
    desc = dict(kernel='bin_kmu', zero_fraction=zero_frac, n=n, edges=fam, Nk=Nk, Nmu=Nmu, poles=list(poles), nthread=nthread, L=L, kedges_over_kf=(kedges / (2 * np.pi / L))[:6].tolist())
    run.ev()
    run.progress(desc)
    with warnings.catch_warnings():
        warnings.simplefilter('ignore')
        wc, cnt, wcp, cntp, wck = ps.bin_kmu(n, L, kedges, muedges, w, poles=np.array(poles, dtype=np.int64), dtype=np.float64, nthread=nthread)
    ref = reference(n, L, kedges, muedges, w, 'kmu', poles)
    key = classify_kmu(desc, n, kedges, L)
    if (ref['count'] > 0).sum() >= 2:
        run.nt(('kmu', n, fam, Nk, Nmu, tuple(poles), nthread))
    if cnt.dtype.kind != 'i':
        return run.violation('kmu-counts-not-integer', desc)
    # a finite mesh never gives a non-finite mean (the k=0 mode, whose mu is undefined, included)
    for name_, arr_ in (('power', wc), ('k_avg', wck), ('poles', wcp)):
        if not np.isfinite(np.asarray(arr_)).all():
            return run.violation('kmu-non-finite-output', dict(output=name_, where=[int(x) for x in np.argwhere(~np.isfinite(np.asarray(arr_)))[0]], **desc))
    if compare_counts(run, cnt, ref, desc, key):
        return True
    clean = ref['maxextra'] == 0
    # exact sums on bins untouched by ties
    gsum = wc * cnt
    ok = np.isclose(gsum, ref['sum'], rtol=1e-12, atol=1e-9) | ~clean
    if not ok.all():
        i = np.argwhere(~ok)[0]
        return run.violation(key, dict(problem='per-bin sum of mesh values differs: other modes were binned', bin=[int(x) for x in i], sum_got=float(gsum[tuple(i)]), sum_expected=float(ref['sum'][tuple(i)]), **desc))
    gk = wck * cnt
    ok = np.isclose(gk, ref['sumk'], rtol=1e-10, atol=1e-9) | ~clean
    if not ok.all():
        i = np.argwhere(~ok)[0]
        return run.violation('kmu-kavg', dict(bin=[int(x) for x in i], got=float(gk[tuple(i)]), expected=float(ref['sumk'][tuple(i)]), **desc))
    # multipoles
    cleank = clean.all(axis=1)
    cp_ref = ref['count'].sum(axis=1)
    if not np.array_equal(cntp[cleank], cp_ref[cleank]):
        return run.violation(key, dict(problem='counts_poles differ', got=cntp[:8], expected=cp_ref[:8], **desc))
    for ip, l in enumerate(poles):
        g = wcp[ip] * cntp
        tol = 2e-5 * ref['sumpoles_abs'][ip] + 1e-9
        ok = (np.abs(g - ref['sumpoles'][ip]) <= tol) | ~cleank
        if not ok.all():
            i = int(np.argwhere(~ok)[0][0])
            return run.violation('kmu-multipole' if key == 'kmu-binning' else key, dict(pole=int(l), kbin=i, got=float(g[i]), expected=float(ref['sumpoles'][ip][i]), **desc))
        if l == 0:
            # l=0 equals the mode-weighted mu-average of the wedges
            mavg = (wc * cnt).sum(axis=1)
            ok = np.isclose(g, mavg, rtol=1e-12, atol=1e-9)
            if not ok.all():
                return run.violation('kmu-monopole-vs-wedges', dict(kbin=int(np.argwhere(~ok)[0][0]), **desc))
    return False


def classify_kppi(n, kedges, pimax, L):
    dk = 2 * np.pi / L
    if n % 2 == 1 and max(kedges[-1], pimax) / dk > (n - 1) / 2 - 1e-9:
        return 'odd-mesh-fold'
    if n % 2 == 0 and pimax / dk > n / 2:
        return 'nyquist-plane-doubled'
    if kedges[-1] / dk < np.sqrt(2) * (n // 2):
        return 'kppi-break-on-nonmonotonic-axis'
    return 'kppi-binning'


def kppi_case(run, ps, rng, n, fam, Nk, Npi, pimax_fac, nthread, L):
    dk = 2 * np.pi / L
    kedges = edge_family(rng, fam, n, L, Nk)
    pimax = pimax_fac * dk * n / 2
    w = rng.permutation(n * n * (n // 2 + 1)).reshape(n, n, n // 2 + 1).astype(np.float64) + 1.0
    if (n + Nk + Npi) % 4 == 1:
        w[rng.random(w.shape) < [0.3, 1.0][(n + Nk) % 2]] = 0.0  # exact zeros are modes too
    desc = dict(kernel='bin_kppi', n=n, edges=fam, Nk=Nk, Npi=Npi, pimax_over_nyq=pimax_fac, nthread=nthread, L=L)
    run.ev()
    run.progress(desc)
    with warnings.catch_warnings():
        warnings.simplefilter('ignore')
        wc, cnt = ps.bin_kppi(n, L, kedges, pimax, Npi, w, dtype=np.float64, nthread=nthread)
    piedges = np.linspace(0.0, pimax, Npi + 1)
    ref = reference(n, L, kedges, piedges, w, 'kppi')
    if (ref['count'] > 0).sum() >= 2:
        run.nt(('kppi', n, fam, Nk, Npi, pimax_fac, nthread))
    key = classify_kppi(n, kedges, pimax, L)
    if compare_counts(run, cnt, ref, desc, key):
        return True
    clean = ref['maxextra'] == 0
    gsum = wc * cnt
    ok = np.isclose(gsum, ref['sum'], rtol=1e-12, atol=1e-9) | ~clean
    if not ok.all():
        i = np.argwhere(~ok)[0]
        return run.violation(key, dict(problem='per-bin sum differs', bin=[int(x) for x in i], sum_got=float(gsum[tuple(i)]), sum_expected=float(ref['sum'][tuple(i)]), **desc))
    return False


def config_space_case(run, ps, rng, n, L, nthread, Nr, poles):
    """fourier=False: the same kernels bin a real (n,n,n) mesh in separation r (pk_to_xi's use); the
    full-mesh enumeration is identical with step L/n instead of 2pi/L."""
    dr = L / n
    redges = np.linspace(0.013 * dr, rng.uniform(0.6, 1.9) * (n // 2) * dr, Nr + 1)
    muedges = np.linspace(0, 1, [1, 2, 4][n % 3] + 1)
    full = rng.permutation(n**3).reshape(n, n, n).astype(np.float64) + 1.0
    desc = dict(kernel='bin_kmu', fourier=False, n=n, Nr=Nr, Nmu=len(muedges) - 1, poles=list(poles), nthread=nthread, L=L)
    run.ev()
    run.progress(desc)
    with warnings.catch_warnings():
        warnings.simplefilter('ignore')
        wc, cnt, wcp, cntp, wck = ps.bin_kmu(n, L, redges, muedges, full, poles=np.array(poles, dtype=np.int64), dtype=np.float64, fourier=False, nthread=nthread)
    ref = reference(n, L, redges, muedges, full[:, :, : n // 2 + 1], 'kmu', poles, fourier=False)
    if (ref['count'] > 0).sum() >= 2:
        run.nt(('config-space', n, Nr, len(muedges), tuple(poles), nthread))
    if compare_counts(run, cnt, ref, desc, 'config-space-binning'):
        return
    clean = ref['maxextra'] == 0
    ok = np.isclose(wc * cnt, ref['sum'], rtol=1e-12, atol=1e-9) | ~clean
    if not ok.all():
        i = np.argwhere(~ok)[0]
        return run.violation('config-space-binning', dict(problem='per-bin sum differs', bin=[int(x) for x in i], **desc))
    ok = np.isclose(wck * cnt, ref['sumk'], rtol=1e-10, atol=1e-9) | ~clean
    if not ok.all():
        return run.violation('config-space-ravg', desc)
    # bin_kppi in configuration space
    Npi = int(rng.integers(1, 6))
    pimax = rng.uniform(0.4, 1.3) * (n // 2) * dr
    wc2, cnt2 = ps.bin_kppi(n, L, redges, pimax, Npi, full, dtype=np.float64, fourier=False, nthread=nthread)
    run.ev()
    ref2 = reference(n, L, redges, np.linspace(0.0, pimax, Npi + 1), full[:, :, : n // 2 + 1], 'kppi', fourier=False)
    if compare_counts(run, cnt2, ref2, dict(desc, kernel='bin_kppi', Npi=Npi), 'config-space-binning'):
        return
    ok = np.isclose(wc2 * cnt2, ref2['sum'], rtol=1e-12, atol=1e-9) | ~(ref2['maxextra'] == 0)
    if not ok.all():
        return run.violation('config-space-binning', dict(problem='per-bin sum differs', kernel='bin_kppi', **desc))


def accumulator_race_monitor(run, ps, rng):
    """prange write-set monitor on the interpreted binning kernels: every array the kernel allocates is
    write-logged; a cell updated by iterations that a static schedule puts on different logical threads is a race
    (the per-thread accumulators must really be indexed by the thread id).  Decides all schedules from one run."""
    from .. import hodrace

    for n, nthread in ((6, 3), (8, 16), (5, 2), (7, 4)):
        L = 100.0
        kedges = edge_family(rng, 'notie', n, L, 3)
        w = rng.random((n, n, n // 2 + 1))
        for kern in ('bin_kmu', 'bin_kppi'):
            fn, rec, npp = hodrace.monitored_threaded(getattr(ps, kern))
            run.ev()
            run.progress(dict(kernel=kern, monitor='write-set', n=n, nthread=nthread))
            with warnings.catch_warnings():
                warnings.simplefilter('ignore')
                if kern == 'bin_kmu':
                    fn(n, L, kedges, np.linspace(0, 1, 3), w, poles=np.array([0, 2, 4], dtype=np.int64), dtype=np.float64, nthread=nthread)
                else:
                    fn(n, L, kedges, kedges[-1], 3, w, dtype=np.float64, nthread=nthread)
            conf = rec.thread_conflicts()
            run.count('accumulator_cells_recorded', sum(len(c) for c in rec.regions))
            run.nt(('write-set', kern, n, nthread))
            if conf:
                run.violation('accumulator-shared-between-threads', dict(kernel=kern, n=n, nthread=nthread, n_conflicting_cells=len(conf), example=conf[0]))
    if not run.counters.get('accumulator_cells_recorded'):
        run.note_inconclusive('accumulator write-set monitor recorded nothing')


def thread_independence(run, ps, rng, n, L):
    kedges = edge_family(rng, 'notie', n, L, 6)
    muedges = np.linspace(0, 1, 4)
    w = rng.permutation(n * n * (n // 2 + 1)).reshape(n, n, n // 2 + 1).astype(np.float64)
    base = None
    for nt in range(1, 17):
        out = ps.bin_kmu(n, L, kedges, muedges, w, poles=np.array([0, 2, 4]), dtype=np.float64, nthread=nt)
        out2 = ps.bin_kppi(n, L, kedges, kedges[-1], 3, w, dtype=np.float64, nthread=nt)
        run.ev(2)
        run.nt(('threads', n, nt))
        if base is None:
            base = (out, out2)
            continue
        if not (np.array_equal(out[1], base[0][1]) and np.array_equal(out[3], base[0][3]) and np.array_equal(out2[1], base[1][1])):
            return run.violation('counts-depend-on-nthread', dict(n=n, nthread=nt))
        for a, b in ((out[0], base[0][0]), (out[2], base[0][2]), (out[4], base[0][4]), (out2[0], base[1][0])):
            if not np.allclose(a, b, rtol=1e-12, atol=1e-12):
                return run.violation('sums-depend-on-nthread', dict(n=n, nthread=nt))


def deltak_case(run, ps, rng, n, L, nthread, poles):
    """calc_pk_from_deltak / project_3d_to_poles on a random complex field (float32 path)."""
    kz = n // 2 + 1
    f = (rng.standard_normal((n, n, kz)) + 1j * rng.standard_normal((n, n, kz))).astype(np.complex64)
    kedges = edge_family(rng, 'notie', n, L, 5)
    muedges = np.linspace(0, 1, 3)
    run.ev()
    run.progress(dict(kernel='calc_pk_from_deltak', n=n))
    P = ps.calc_pk_from_deltak(f, L, kedges, muedges, poles=np.array(poles, dtype=np.int64), nthread=nthread)
    w = (np.abs(f.astype(np.complex128)) ** 2)
    ref = reference(n, L, kedges, muedges, w, 'kmu', poles)
    desc = dict(kernel='calc_pk_from_deltak', n=n, nthread=nthread, poles=list(poles))
    run.nt(('deltak', n, nthread, tuple(poles)))
    if compare_counts(run, P['N_mode'], ref, desc, 'kmu-binning'):
        return
    cnt = ref['count']
    with np.errstate(invalid='ignore', divide='ignore'):
        mean = np.where(cnt > 0, ref['sum'] / np.maximum(cnt, 1), 0) * L**3
    clean = ref['maxextra'] == 0
    if not (np.isclose(P['power'], mean, rtol=2e-4, atol=1e-6 * L**3) | ~clean).all():
        return run.violation('deltak-power', dict(got=P['power'].ravel()[:4], expected=mean.ravel()[:4], **desc))
    # the multipoles returned by calc_pk_from_deltak itself (same units as the wedges: L^3)
    cp0 = cnt.sum(axis=1)
    cleank0 = clean.all(axis=1)
    bpo = np.asarray(P['binned_poles'])
    if len(poles):
        if bpo.shape != (len(poles), len(cp0)) or not np.array_equal(np.asarray(P['N_mode_poles'])[cleank0], cp0[cleank0]):
            return run.violation('deltak-poles-shape-or-counts', dict(shape=list(bpo.shape), **desc))
        for ip, l in enumerate(poles):
            with np.errstate(invalid='ignore', divide='ignore'):
                exp = np.where(cp0 > 0, ref['sumpoles'][ip] / np.maximum(cp0, 1), 0) * L**3
                tol = 2e-4 * np.where(cp0 > 0, ref['sumpoles_abs'][ip] / np.maximum(cp0, 1), 0) * L**3 + 1e-6
            if ((np.abs(bpo[ip] - exp) > tol) & cleank0).any():
                return run.violation('deltak-poles-values', dict(pole=int(l), got=bpo[ip][:4], expected=exp[:4], **desc))
    # project_3d_to_poles: one mu bin
    bp, Np = ps.project_3d_to_poles(kedges, w.astype(np.float32), L, np.array(poles))
    run.ev()
    cp = cnt.sum(axis=1)
    if not np.array_equal(Np, cp):
        return run.violation('project-poles-counts', dict(got=Np, expected=cp, **desc))
    for ip, l in enumerate(poles):
        with np.errstate(invalid='ignore', divide='ignore'):
            exp = np.where(cp > 0, ref['sumpoles'][ip] / np.maximum(cp, 1), 0) * L**3
            tol = 1e-4 * np.where(cp > 0, ref['sumpoles_abs'][ip] / np.maximum(cp, 1), 0) * L**3 + 1e-6
        if (np.abs(bp[ip] - exp) > tol).any():
            return run.violation('project-poles-values', dict(pole=int(l), got=bp[ip][:4], expected=exp[:4], **desc))


def big_bin_case(run, ps, n, nthread):
    """More than 2^24 modes in a single (k, mu) bin, binned in the default working precision (float32): counts are mode
    *counts*, exact whatever the precision of the weighted sums.  One bin holding every mode but k=0: exactly n^3 - 1."""
    L = 2 * np.pi
    kedges = np.array([0.5, 10.0 * n])  # in units of k_f = 1
    muedges = np.array([0.0, 1.0])
    w = np.ones((n, n, n // 2 + 1), dtype=np.float32)
    desc = dict(kernel='bin_kmu', n=n, nthread=nthread, bins='one (k, mu) bin holding every mode except k=0', dtype='float32 (default)')
    run.ev()
    run.progress(desc)
    with warnings.catch_warnings():
        warnings.simplefilter('ignore')
        wc, cnt, wcp, cntp, wck = ps.bin_kmu(n, L, kedges, muedges, w, poles=np.array([0], dtype=np.int64), nthread=nthread)
    run.nt(('big-bin', n, nthread))
    run.count('modes_in_big_bins', n**3 - 1)
    exp = n**3 - 1
    if int(np.asarray(cnt).sum()) != exp or int(np.asarray(cntp).sum()) != exp:
        run.violation('mode-count-inexact-beyond-2^24', dict(count_got=int(np.asarray(cnt).sum()), count_poles_got=int(np.asarray(cntp).sum()), count_expected=exp, **desc))


def deltak_against_reference(P, ref, L, poles, Nk, Nmu):
    """Every quantity calc_pk_from_deltak returns against the full-mesh enumeration (float32 path); None or a witness dict.
    N_mode is checked by compare_counts; bins touched by an edge tie are skipped here."""
    cnt = ref['count']
    clean = ref['maxextra'] == 0
    cleank = clean.all(axis=1)
    cp = cnt.sum(axis=1)
    for name in ('power', 'N_mode', 'k_avg'):
        if np.shape(P[name]) != (Nk, Nmu):
            return dict(output=name, problem='shape', shape=list(np.shape(P[name])), expected_shape=[Nk, Nmu])
    with np.errstate(invalid='ignore', divide='ignore'):
        mean = np.where(cnt > 0, ref['sum'] / np.maximum(cnt, 1), 0) * L**3
        meanabs = np.where(cnt > 0, ref['sumabs'] / np.maximum(cnt, 1), 0) * L**3
        kavg = np.where(cnt > 0, ref['sumk'] / np.maximum(cnt, 1), 0)
    bad = (np.abs(np.asarray(P['power'], dtype=np.float64) - mean) > 2e-4 * meanabs + 1e-6 * L**3) & clean
    if bad.any():
        i = tuple(np.argwhere(bad)[0])
        return dict(output='power', bin=[int(x) for x in i], got=float(P['power'][i]), expected=float(mean[i]))
    bad = ~np.isclose(np.asarray(P['k_avg'], dtype=np.float64), kavg, rtol=2e-4, atol=1e-9) & clean
    if bad.any():
        i = tuple(np.argwhere(bad)[0])
        return dict(output='k_avg', bin=[int(x) for x in i], got=float(P['k_avg'][i]), expected=float(kavg[i]), modes_in_bin=int(cnt[i]))
    if len(poles):
        bpo = np.asarray(P['binned_poles'], dtype=np.float64)
        if bpo.shape != (len(poles), Nk):
            return dict(output='binned_poles', problem='shape', shape=list(bpo.shape))
        if not np.array_equal(np.asarray(P['N_mode_poles'])[cleank], cp[cleank]):
            return dict(output='N_mode_poles', got=np.asarray(P['N_mode_poles'])[:8], expected=cp[:8])
        for ip, l in enumerate(poles):
            with np.errstate(invalid='ignore', divide='ignore'):
                exp = np.where(cp > 0, ref['sumpoles'][ip] / np.maximum(cp, 1), 0) * L**3
                tol = 2e-4 * np.where(cp > 0, ref['sumpoles_abs'][ip] / np.maximum(cp, 1), 0) * L**3 + 1e-6
            bad = (np.abs(bpo[ip] - exp) > tol) & cleank
            if bad.any():
                i = int(np.argwhere(bad)[0][0])
                return dict(output='binned_poles', pole=int(l), kbin=i, got=float(bpo[ip][i]), expected=float(exp[i]))
    return None


def call_history_case(run, ps, rng, n, L, Nk, Nmu, nthread):
    """Call history through the public entry point: many calc_pk_from_deltak calls in this one process that share the mesh
    size, the box, the number of k bins and the first / last k edge, but differ in the interior k edges (linear, log,
    quadratic, random), in the mu edges (same Nmu other values; another Nmu), in the multipoles, in the field (another
    field; a cross-spectrum).  The requests are made in one order, then shuffled, then reversed, so each request is made
    after several different predecessors.  Oracles: (a) every returned quantity of every call against the full-mesh
    enumeration of *that* call's binning and field; (b) the same request returns the same values wherever it stands in the
    sequence (counts exactly, float32 means to 1e-4 of their scale).  Nothing remembered from an earlier call may show."""
    dk = 2 * np.pi / L
    kN = dk * n / 2
    kmin = rng.uniform(0.31, 0.97) * dk
    kmax = rng.uniform(0.62, 1.45) * kN
    t = np.linspace(0.0, 1.0, Nk + 1)
    kfam = dict(
        lin=kmin + (kmax - kmin) * t,
        log=np.geomspace(kmin, kmax, Nk + 1),
        quad=kmin + (kmax - kmin) * t**2,
        rnd=np.concatenate([[kmin], np.sort(rng.uniform(kmin, kmax, Nk - 1)), [kmax]]),
    )
    for e in kfam.values():
        e[0], e[-1] = kmin, kmax  # identical end points, bit for bit
    u = np.linspace(0.0, 1.0, Nmu + 1)
    mufam = dict(lin=u, sqrt=np.sqrt(u), rnd=np.concatenate([[0.0], np.sort(rng.uniform(0.03, 0.97, Nmu - 1)), [1.0]]), more=np.linspace(0.0, 1.0, Nmu + 2))
    kz = n // 2 + 1
    fields = [(rng.standard_normal((n, n, kz)) + 1j * rng.standard_normal((n, n, kz))).astype(np.complex64) for _ in range(2)]
    A, B, C_ = (0, 2, 4), (0,), (4, 2, 0)
    # (k edges, mu edges, poles, field, cross with the other field)
    requests = [
        ('lin', 'lin', A, 0, False),
        ('log', 'lin', A, 0, False),  # only the interior k edges change
        ('log', 'sqrt', A, 0, False),  # only the mu edge values change
        ('rnd', 'rnd', B, 1, False),
        ('lin', 'lin', A, 1, False),  # only the field changes
        ('quad', 'more', C_, 0, False),  # another Nmu, another order of multipoles
        ('lin', 'lin', A, 0, True),  # cross-spectrum on the binning of the first request
        ('quad', 'sqrt', (), 1, False),
        ('log', 'rnd', B, 1, True),
    ]
    refs = []
    for kf_, mf_, poles, fi, cross in requests:
        f = fields[fi].astype(np.complex128)
        w = (np.conj(f) * fields[1 - fi].astype(np.complex128)).real if cross else np.abs(f) ** 2
        ref = reference(n, L, kfam[kf_], mufam[mf_], w, 'kmu', poles)
        ref['sumabs'] = reference(n, L, kfam[kf_], mufam[mf_], np.abs(w), 'kmu')['sum']
        refs.append(ref)
    R = len(requests)
    order = list(range(R)) + [int(x) for x in rng.permutation(R)] + list(range(R))[::-1]
    first = {}
    prev = None
    for pos, r in enumerate(order):
        kf_, mf_, poles, fi, cross = requests[r]
        kedges, muedges = kfam[kf_], mufam[mf_]
        desc = dict(
            kernel='calc_pk_from_deltak', n=n, L=L, Nk=Nk, Nmu=len(muedges) - 1, nthread=nthread, position_in_sequence=pos,
            request=dict(k_edges=kf_, mu_edges=mf_, poles=list(poles), field=fi, cross=cross),
            previous_request=None if prev is None else dict(zip(('k_edges', 'mu_edges', 'poles', 'field', 'cross'), requests[prev])),
            kedges_over_kf=(kedges / dk).tolist(), muedges=muedges.tolist(),
        )
        run.ev()
        run.progress(desc)
        with warnings.catch_warnings():
            warnings.simplefilter('ignore')
            P = ps.calc_pk_from_deltak(fields[fi], L, kedges, muedges, field2_fft=fields[1 - fi] if cross else None, poles=np.array(poles, dtype=np.int64), nthread=nthread)
        P = {k_: np.array(v, copy=True) for k_, v in P.items()}
        run.count('calls_with_history', 1)
        if (refs[r]['count'] > 0).sum() >= 2:
            run.nt(('history', n, Nk, Nmu, nthread, pos, r))
        if np.shape(P['N_mode']) == refs[r]['count'].shape and compare_counts(run, P['N_mode'], refs[r], desc, 'deltak-result-depends-on-call-history'):
            return True
        wit = deltak_against_reference(P, refs[r], L, poles, Nk, len(muedges) - 1)
        if wit is not None:
            return run.violation('deltak-result-depends-on-call-history', dict(oracle='full-mesh enumeration of this call', **wit, **desc))
        if r not in first:
            first[r] = (pos, P)
        else:
            pos0, P0 = first[r]
            for name in ('N_mode', 'N_mode_poles', 'power', 'k_avg', 'binned_poles'):
                a, b = np.asarray(P[name]), np.asarray(P0[name])
                if a.shape != b.shape:
                    same = False
                elif name.startswith('N_mode'):
                    same = np.array_equal(a, b)
                else:
                    same = a.size == 0 or bool(np.allclose(a, b, rtol=1e-4, atol=1e-4 * float(np.abs(b).max()) + 1e-30))
                if not same:
                    return run.violation('deltak-result-depends-on-call-history', dict(oracle='the same request earlier in this process', output=name, earlier_position=pos0, got=a.ravel()[:6], earlier=b.ravel()[:6], **desc))
        prev = r
    return False


def check(run):
    from abacusnbody.analysis import power_spectrum as ps

    rng = run.rng(0)
    fams = ['notie', 'notie_wide', 'lin0_nyq', 'linkf', 'log', 'random', 'above0_belownyq', 'beyond_nyq', 'beyond_all', 'nyq_shell']
    ns = list(range(2, 17)) if run.quick else list(range(2, 33)) + [48, 64]
    reps = 1 if run.quick else 6
    k = 0
    for rep in range(reps):
        for n in ns:
            for fam in fams:
                k += 1
                Nk = int(rng.integers(1, 9))
                Nmu = [1, 2, 3, 4, 7, 5][k % 6]
                poles = [(), (0, 2, 4), (0,), (2,), (0, 1, 2, 3, 4), (2, 0, 4), (4, 2, 0), (3, 1), (10,), (0, 6, 8, 10)][k % 10]  # any order, any subset
                nthread = [1, 2, 16, 3, 7][(k // 2) % 5]
                L = [1.0, 2 * np.pi, 500.0][k % 3]
                if n > 33 and k % 3:
                    continue
                kmu_case(run, ps, rng, n, fam, Nk, Nmu, poles, nthread, L)
                Npi = int(rng.integers(1, 9))
                pf = [0.5, 1.0, 1.3, 0.8, 2.0][k % 5]
                kppi_case(run, ps, rng, n, fam, Nk, Npi, pf, nthread, L)
                if run.too_many():
                    return
    # hundreds of k bins (calc_power's default is one bin per mesh cell: nmesh = 512 means 512 bins): modes far beyond bin 255 / 256
    for n, Nk, fam in ((12, 300, 'notie_wide'), (16, 513, 'lin0_nyq'), (9, 1000, 'random'), (10, 257, 'notie')):
        kmu_case(run, ps, rng, n, fam, Nk, [1, 3][n % 2], [(0, 2), ()][n % 2], [1, 16, 3][n % 3], 2 * np.pi)
        kppi_case(run, ps, rng, n, fam, Nk, 5, 0.9, [16, 1, 4][n % 3], 2 * np.pi)
        run.count('cases_with_hundreds_of_k_bins', 2)
    run.sample(dict(kernel='bin_kmu', n=7, edges='beyond_nyq', Nk=4, Nmu=3, poles=[0, 2, 4], nthread=16, mesh='distinct integers 1..n*n*(n//2+1), dtype float64'))
    run.sample(dict(kernel='bin_kppi', n=8, edges='above0_belownyq', Nk=3, Npi=4, pimax_over_nyq=0.5))
    for n in (range(2, 13) if run.quick else range(2, 33)):
        for rep in range(1 if run.quick else 3):
            config_space_case(run, ps, rng, n, [1.0, 250.0][n % 2], [1, 16, 3][n % 3], int(rng.integers(1, 7)), [(), (0, 2), (0, 2, 4)][n % 3])
    # consecutive requests on one mesh size and box whose edge arrays have equal lengths and equal end points but other interior
    # edges (each is compared with the enumeration, so anything remembered from the previous request shows)
    for n in (6, 9, 12):
        L = 100.0
        kf = 2 * np.pi / L
        for j, inner in enumerate(([0.9, 1.7, 2.6], [1.3, 1.45, 2.95], [0.6, 2.2, 2.4])):
            kedges = np.array([0.35] + inner + [3.35]) * kf
            muedges = [np.linspace(0, 1, 5), np.array([0.0, 0.1, 0.35, 0.8, 1.0]), np.array([0.0, 0.45, 0.5, 0.55, 1.0])][j]
            w = rng.permutation(n * n * (n // 2 + 1)).reshape(n, n, n // 2 + 1).astype(np.float64) + 1.0
            desc = dict(kernel='bin_kmu', n=n, L=L, request_in_sequence=j, kedges_over_kf=(kedges / kf).tolist(), muedges=muedges.tolist())
            run.ev()
            run.progress(desc)
            with warnings.catch_warnings():
                warnings.simplefilter('ignore')
                wc, cnt, wcp, cntp, wck = ps.bin_kmu(n, L, kedges, muedges, w, poles=np.array([0, 2], dtype=np.int64), dtype=np.float64, nthread=[4, 1, 16][j])
            ref = reference(n, L, kedges, muedges, w, 'kmu', (0, 2))
            run.nt(('sequence', n, j))
            if compare_counts(run, cnt, ref, desc, 'kmu-binning-depends-on-earlier-request'):
                break
            clean = ref['maxextra'] == 0
            if not (np.isclose(wck * cnt, ref['sumk'], rtol=1e-10, atol=1e-9) | ~clean).all():
                run.violation('kmu-binning-depends-on-earlier-request', dict(problem='k_avg', **desc))
                break
    accumulator_race_monitor(run, ps, rng)
    for n, nthread in ([(260, 1), (260, 16)] if run.quick else [(260, 1), (260, 16), (300, 3), (400, 1), (400, 2)]):
        big_bin_case(run, ps, n, nthread)
    for n in ([5, 8, 12] if run.quick else [3, 5, 8, 9, 12, 16, 24, 31]):
        thread_independence(run, ps, rng, n, 100.0)
    for n in ([4, 7, 10] if run.quick else range(3, 20)):
        deltak_case(run, ps, rng, n, 250.0, [1, 4, 16][n % 3], (0, 2, 4))
        # a single multipole; the highest documented order (10); an unsorted mix
        deltak_case(run, ps, rng, n, [250.0, 3.0][n % 2], [16, 1, 4][n % 3], [(0,), (2,), (10,), (4,)][n % 4])
        deltak_case(run, ps, rng, n, 100.0, 4, [(0, 10), (6, 8, 10), (10, 4)][n % 3])
    # call history through calc_pk_from_deltak (own random stream; after all the other workload)
    hrng = run.rng(10)
    hist = [(12, 5, 3, 1), (6, 3, 2, 4), (9, 4, 3, 16), (16, 8, 4, 2), (7, 6, 5, 3)]
    if not run.quick:
        hist += [(int(hrng.integers(5, 25)), int(hrng.integers(2, 11)), int(hrng.integers(2, 7)), int(hrng.integers(1, 17))) for _ in range(25)]
    for n, Nk, Nmu, nthread in hist:
        if call_history_case(run, ps, hrng, n, float(hrng.choice([100.0, 2 * np.pi, 1.0, 737.5])), Nk, Nmu, nthread):
            break


def replay(run, data):
    check(run)
