"""C03 — superslab concatenation and filter_func commute with loading.

Differential + identity monitor on the real loader: load(list of files) vs row-wise concatenation of
single-file loads; load(filter=m) vs mask applied to the unfiltered load, with arbitrary predetermined
per-superslab masks delivered by a closure; a recording filter logs what the loader shows it."""

import os
import shutil

import numpy as np

from .. import catoracle, core, gen_catalog

LEVEL = 'exploration'
RULE = (
    'generated trees x file subsets/orders (dir, single file, sorted/permuted/non-adjacent lists) x row masks per superslab (all, none, none in one slab, only zero-particle halos, '
    'only cleaned-away halos, random p in {.1,.5,.9}, thresholds on N / id) x cleaned on/off x subsample selections x field subsets, plus light-cone trees with a filter and the '
    'documented rejections (duplicate files, mixed catalogues). A case = one filtered or multi-file load compared column by column and slice by slice with its reference. '
    'non-trivial = distinct (tree, files, mask class, cleaned, subsamples, fields) with >= 2 superslabs or a mask that is neither all nor none'
)
RULE += (
    ' Added after seeded round 9: filters that read a converted position, a radius scaled by meta[\'BoxSize\'] and N * meta[\'ParticleMassHMsun\'] (expected rows = the same function on the unfiltered load).'
)
RULE += (
    ' Added after seeded round 11: a load that the loader legitimately REJECTS or that FAILS part-way (filter_func raising KeyError on the first superslab / ZeroDivisionError on a middle or the last one / '
    'returning a mask of the wrong length, an unknown field name, a non-existent later superslab in the file list, a missing cleaning or particle file of a later superslab) on catalogue X -- or on Y itself -- '
    'followed in the same process by a valid (unfiltered / masked, directory / reversed list / single later file) load of a DIFFERENT catalogue Y with the SAME file names in another directory; '
    'Y must equal its own unfiltered load taken before the failure (masked), its ground-truth ids / N per superslab, and its own particle slices.'
)
ASSUMPTIONS = [
    'the loader calls filter_func once per superslab in file order (observed and asserted by the recording filter)',
    'index columns npstart/npout are compared through the particle slices they address',
    'for light cones only "each kept halo slice holds its own particles" is asserted (the loader does not re-index light-cone subsamples)',
]

INDEX = ('npstartA', 'npstartB', 'npoutA', 'npoutB', 'npstartA_merge', 'npstartB_merge', 'npoutA_merge', 'npoutB_merge')


def compare_halos(run, got, ref_rows, desc, key):
    """got: Table; ref_rows: dict col -> expected array."""
    for c in got.colnames:
        if c in INDEX or c not in ref_rows:
            continue
        a, b = np.asarray(got[c]), ref_rows[c]
        run.count('halo_columns_compared')
        if not catoracle.eq_nan(a, b):
            info = dict(column=c, shape_got=list(a.shape), shape_expected=list(b.shape))
            if a.shape == b.shape:
                bad = ~((a == b) | (np.isnan(a) & np.isnan(b))) if a.dtype.kind == 'f' else (a != b)
                info['first_bad_row'] = int(np.argwhere(bad)[0][0])
            return run.violation(key, dict(info, **desc))
        if a.size and a.dtype.itemsize >= 4 and core.poison_count(a.reshape(len(a), -1)[:, 0]):
            return run.violation('halo-rows-unwritten', dict(column=c, **desc))
    return False


def table_rows(cat, mask=None):
    out = {}
    for c in cat.halos.colnames:
        a = np.asarray(cat.halos[c])
        out[c] = a if mask is None else a[mask]
    return out


def mask_for(rng, kind, S, slab_pos, nslab):
    H = S['H']
    if kind == 'all':
        return np.ones(H, bool)
    if kind == 'none':
        return np.zeros(H, bool)
    if kind == 'none_in_one':
        return np.zeros(H, bool) if slab_pos == nslab // 2 else rng.random(H) < 0.6
    if kind == 'zero_particle':
        return (S['raw']['npoutA'] == 0) | (S['raw']['npoutB'] == 0)
    if kind == 'cleaned_away':
        return S['cleaned_away'].copy()
    if kind == 'not_cleaned_away':
        return ~S['cleaned_away']
    p = dict(p10=0.1, p50=0.5, p90=0.9)[kind]
    return rng.random(H) < p


class MaskFilter:
    """Predetermined per-call masks + a record of what the loader showed the filter."""

    def __init__(self, masks):
        self.masks = masks
        self.calls = []

    def __call__(self, h):
        k = len(self.calls)
        rec = dict(colnames=list(h.colnames), nrows=len(h))
        if 'N' in h.colnames:
            rec['N'] = np.array(h['N'])
        self.calls.append(rec)
        if k >= len(self.masks) or len(self.masks[k]) != len(h):
            raise AssertionError(f'filter called {k + 1} times / with {len(h)} rows; expected {len(self.masks)} calls')
        return self.masks[k]


def file_sets(rng, truth):
    inds = truth['slab_inds']
    hi = os.path.join(truth['path'], 'halo_info')
    fn = lambda s: os.path.join(hi, f'halo_info_{s:03d}.asdf')  # noqa
    out = [('zdir', truth['path'], list(inds))]
    out.append(('single', fn(inds[-1]), [inds[-1]]))
    if len(inds) > 1:
        out.append(('list_all', [fn(s) for s in inds], list(inds)))
        rev = list(reversed(inds))
        out.append(('list_reversed', [fn(s) for s in rev], rev))
        sub = [int(x) for x in rng.choice(inds, max(1, len(inds) - 1), replace=False)]
        out.append(('list_subset_permuted', [fn(s) for s in sub], sub))
    if len(inds) > 2:
        na = [inds[0], inds[-1]]
        out.append(('list_nonadjacent', [fn(s) for s in na], na))
    return out


def subsample_choice(rng, k):
    return [False, True, dict(A=True, pid=True), dict(B=True, rv=True), dict(A=True, B=True, pos=True)][k % 5]


def resolved_AB(sub):
    if sub is True:
        return ['A', 'B']
    if not sub:
        return []
    return [k for k in 'AB' if sub.get(k)] or ['A']


def tree_cases(run, rng, k):
    nslab = int(rng.integers(1, 6))
    inds = sorted(int(x) for x in rng.choice(np.arange(0, 30), nslab, replace=False)) if k % 2 else list(range(nslab))
    hps = [int(rng.integers(0, 20)) for _ in inds]
    if k % 4 == 3 and nslab > 1:
        hps[0] = 0
    if k % 4 == 1:
        # superslab numbers of four digits (file names halo_info_1000.asdf ...) next to three-digit ones
        inds = inds + [1000 + inds[0], 1000 + inds[0] + 7]
        hps = hps + [int(rng.integers(1, 20)), int(rng.integers(0, 20))]
    truth = gen_catalog.make_tree(rng, slab_inds=inds, halos_per_slab=hps, compression=[None, 'zlib', None, 'blsc'][k % 4], blsc_block=[48, None][k // 4 % 2], cleaned_away_prob=0.3, zero_part_prob=0.25, smallratio=True, clean_layout=[1, 3, 2, 4][k % 4])
    try:
        fsets = file_sets(rng, truth)
        fields_opts = ['DEFAULT_FIELDS', ['N', 'id', 'x_com'], ['id', 'sigmavMid_L2com', 'N'], 'all']
        single_cache = {}
        c = 0
        for cleaned in (True, False):
            for (fname, path, slabs) in fsets:
                c += 1
                sub = subsample_choice(rng, c + k)
                fields = fields_opts[(c + k) % 4]
                base_kw = dict(cleaned=cleaned, subsamples=sub, fields=fields)
                desc0 = dict(tree=k, slab_inds=inds, halos_per_slab=hps, files=fname, slabs_loaded=slabs, cleaned=cleaned, subsamples=repr(sub), fields=fields)
                run.progress(desc0)
                # ---- unfiltered multi-file load
                run.ev()
                full, err = catoracle.load(path, **base_kw)
                if err is not None:
                    run.violation('load-fails-' + type(err).__name__, dict(error=f'{type(err).__name__}: {err}'[:300], **desc0))
                    continue
                run.count('loads')
                # (a) concatenation of single-file loads
                parts = []
                ok = True
                for s in slabs:
                    keyc = (s, cleaned, repr(sub), repr(fields))
                    if keyc not in single_cache:
                        one, e1 = catoracle.load(os.path.join(truth['path'], 'halo_info', f'halo_info_{s:03d}.asdf'), **base_kw)
                        run.count('loads')
                        single_cache[keyc] = (one, e1)
                    one, e1 = single_cache[keyc]
                    if e1 is not None:
                        run.violation('load-fails-' + type(e1).__name__, dict(error=str(e1)[:300], single_file=s, **desc0))
                        ok = False
                        break
                    parts.append(one)
                if not ok:
                    continue
                ref = {cn: np.concatenate([np.asarray(p.halos[cn]) for p in parts]) for cn in full.halos.colnames if all(cn in p.halos.colnames for p in parts)}
                if len(slabs) >= 2:
                    run.nt((k, fname, 'concat', cleaned, repr(sub), repr(fields)))
                if compare_halos(run, full.halos, ref, dict(desc0, check='concatenation'), 'concatenation-differs'):
                    continue
                AB = resolved_AB(sub)
                if AB:
                    if catoracle.check_subsamples(run, full, truth, slabs, cleaned, AB, desc=dict(desc0, check='concatenation'), key_prefix='concat-subsample'):
                        continue
                    # each single-file load's slices too (cheap, same oracle)
                full_rows = table_rows(full)
                # ---- filtered loads
                kinds = ['all', 'none', 'none_in_one', 'zero_particle', 'cleaned_away', 'not_cleaned_away', 'p10', 'p50', 'p90']
                sel_kinds = [kinds[(c + j) % len(kinds)] for j in range(3)] if run.quick else kinds
                for kind in sel_kinds:
                    masks = [mask_for(rng, kind, truth['slabs'][s], j, len(slabs)) for j, s in enumerate(slabs)]
                    filt = MaskFilter(masks)
                    desc = dict(desc0, mask=kind, kept=[int(m.sum()) for m in masks])
                    run.progress(desc)
                    run.ev()
                    run.count('loads')
                    got, err = catoracle.load(path, filter_func=filt, **base_kw)
                    if err is not None:
                        key = 'filter-load-fails-' + type(err).__name__
                        run.violation(key, dict(error=f'{type(err).__name__}: {err}'[:300], **desc))
                        continue
                    run.count('filter_mask_' + kind)
                    allmask = np.concatenate(masks) if masks else np.zeros(0, bool)
                    if len(slabs) >= 2 or (allmask.any() and not allmask.all()):
                        run.nt((k, fname, kind, cleaned, repr(sub), repr(fields)))
                    if len(filt.calls) != len(slabs):
                        run.violation('filter-call-count', dict(calls=len(filt.calls), superslabs=len(slabs), **desc))
                        continue
                    # what the filter saw
                    for j, (rec, s) in enumerate(zip(filt.calls, slabs)):
                        if cleaned:
                            if 'N_total' in rec['colnames'] or 'N' not in rec['colnames']:
                                run.violation('filter-sees-wrong-count-column', dict(superslab=s, colnames=rec['colnames'][:10], **desc))
                                break
                            if not np.array_equal(rec['N'], truth['slabs'][s]['clean']['N_total']):
                                run.violation('filter-sees-uncleaned-N', dict(superslab=s, **desc))
                                break
                        elif 'N' in rec['colnames'] and not np.array_equal(rec['N'], truth['slabs'][s]['raw']['N']):
                            run.violation('filter-sees-wrong-N', dict(superslab=s, **desc))
                            break
                    ref = {cn: v[allmask] for cn, v in full_rows.items()}
                    if len(got.halos) != int(allmask.sum()):
                        run.violation('filter-row-count', dict(rows=len(got.halos), expected=int(allmask.sum()), **desc))
                        continue
                    if compare_halos(run, got.halos, ref, dict(desc, check='filter'), 'filter-rows-differ'):
                        continue
                    if AB:
                        catoracle.check_subsamples(run, got, truth, slabs, cleaned, AB, masks=masks, desc=dict(desc, check='filter'), key_prefix='filter-subsample')
                # threshold filters written the way users write them
                if 'N' in full.halos.colnames and len(full.halos):
                    thr = int(np.median(np.asarray(full.halos['N'])))
                    run.ev()
                    run.count('loads')
                    got, err = catoracle.load(path, filter_func=lambda h: h['N'] >= thr, **base_kw)
                    desc = dict(desc0, mask=f'N>={thr}')
                    if err is not None:
                        run.violation('filter-load-fails-' + type(err).__name__, dict(error=str(err)[:300], **desc))
                    else:
                        m = np.asarray(full.halos['N']) >= thr
                        ref = {cn: v[m] for cn, v in full_rows.items()}
                        if not compare_halos(run, got.halos, ref, dict(desc, check='filter'), 'filter-rows-differ') and AB:
                            offs = np.cumsum([0] + [truth['slabs'][s]['H'] for s in slabs])
                            masks = [m[offs[j] : offs[j + 1]] for j in range(len(slabs))]
                            catoracle.check_subsamples(run, got, truth, slabs, cleaned, AB, masks=masks, desc=dict(desc, check='filter'), key_prefix='filter-subsample')
                # filters that look at what a user looks at: a position / radius in the units of the load, and the header carried as the
                # table's meta -- the rows kept are those the same function selects on the unfiltered load
                userf = []
                for cn in ('x_L2com', 'x_com'):
                    if cn in full.halos.colnames and len(full.halos):
                        tx = float(np.median(np.asarray(full.halos[cn])[:, 0]))
                        userf.append((f'{cn}[:,0] > {tx!r}', lambda h, cn=cn, tx=tx: np.asarray(h[cn])[:, 0] > tx))
                        break
                for cn in ('r100_L2com', 'r100_com'):
                    if cn in full.halos.colnames and len(full.halos):
                        userf.append((f"{cn} > 0.6 * max * BoxSize-from-meta ratio", lambda h, cn=cn, t=0.6 * float(np.max(np.asarray(full.halos[cn]))) / float(full.halos.meta['BoxSize']): np.asarray(h[cn]) > t * h.meta['BoxSize']))
                        break
                if 'N' in full.halos.colnames and len(full.halos):
                    userf.append(("N * meta['ParticleMassHMsun'] >= median", lambda h, t=float(np.median(np.asarray(full.halos['N']))) * float(full.halos.meta.get('ParticleMassHMsun', 1.0)): np.asarray(h['N']) * h.meta.get('ParticleMassHMsun', 1.0) >= t))
                for label, uf in userf:
                    run.ev()
                    run.count('loads')
                    run.count('user_style_filters')
                    desc = dict(desc0, mask=label)
                    got, err = catoracle.load(path, filter_func=uf, **base_kw)
                    if err is not None:
                        run.violation('filter-load-fails-' + type(err).__name__, dict(error=f'{type(err).__name__}: {err}'[:300], **desc))
                        continue
                    m = np.asarray(uf(full.halos), dtype=bool)
                    ref = {cn: v[m] for cn, v in full_rows.items()}
                    if len(got.halos) != int(m.sum()):
                        run.violation('filter-row-count', dict(rows=len(got.halos), expected=int(m.sum()), **desc))
                    elif not compare_halos(run, got.halos, ref, dict(desc, check='filter'), 'filter-rows-differ') and AB:
                        offs = np.cumsum([0] + [truth['slabs'][s]['H'] for s in slabs])
                        catoracle.check_subsamples(run, got, truth, slabs, cleaned, AB, masks=[m[offs[j] : offs[j + 1]] for j in range(len(slabs))], desc=dict(desc, check='filter'), key_prefix='filter-subsample')
                if run.too_many():
                    return
        # the catalogue named by a path relative to the working directory (from inside the simulation directory, and from
        # inside halo_info itself where a file is named by its bare name): same result as with the absolute path
        here = os.getcwd()
        try:
            ref_abs, e0 = catoracle.load(truth['path'], cleaned=True, fields=['N', 'id', 'x_com'], subsamples=dict(A=True, pid=True))
            zdir = truth['path']
            hi = os.path.join(zdir, 'halo_info')
            first = sorted(os.listdir(hi))[0]
            s0 = int(first.split('_')[-1].split('.')[0])
            ref_one, e1 = catoracle.load(os.path.join(hi, first), cleaned=True, fields=['N', 'id', 'x_com'], subsamples=dict(A=True, pid=True))
            for cwd, rel, ref_, slabs_ in ((os.path.dirname(zdir), os.path.basename(zdir), ref_abs, None), (hi, first, ref_one, [s0]), (zdir, os.path.join('halo_info', first), ref_one, [s0])):
                os.chdir(cwd)
                run.ev()
                run.count('loads')
                got, err = catoracle.load(rel, cleaned=True, fields=['N', 'id', 'x_com'], subsamples=dict(A=True, pid=True))
                desc = dict(tree=k, slab_inds=inds, relative_path=rel, cwd_is=os.path.relpath(cwd, truth['root']))
                if err is not None:
                    if e0 is None and e1 is None:
                        run.violation('load-fails-' + type(err).__name__, dict(error=f'{type(err).__name__}: {err}'[:300], **desc))
                    continue
                run.nt((k, 'relative-path', rel))
                if ref_ is not None:
                    compare_halos(run, got.halos, table_rows(ref_), dict(desc, check='relative path'), 'concatenation-differs')
        finally:
            os.chdir(here)
        # passthrough loads (raw column names) with a filter: the filter sees the raw table, the kept rows are the masked unfiltered rows
        if k % 2 == 0:
            for fields, filt_col in (('all', 'N_total'), (['id', 'N_total', 'x_L2com'], 'id'), ('all', 'id')):
                run.ev()
                run.count('loads', 2)
                full, e0 = catoracle.load(truth['path'], cleaned=True, passthrough=True, fields=fields)
                desc = dict(tree=k, slab_inds=inds, passthrough=True, fields=fields, filter_on=filt_col)
                if e0 is not None:
                    run.violation('load-fails-' + type(e0).__name__, dict(error=str(e0)[:300], **desc))
                    continue
                col = np.asarray(full.halos[filt_col])
                thr = np.median(col) if len(col) else 0
                got, err = catoracle.load(truth['path'], cleaned=True, passthrough=True, fields=fields, filter_func=lambda h, c=filt_col, t=thr: np.asarray(h[c]) >= t)
                if err is not None:
                    run.violation('filter-load-fails-' + type(err).__name__, dict(error=f'{type(err).__name__}: {err}'[:300], **desc))
                    continue
                m = col >= thr
                run.nt((k, 'passthrough-filter', repr(fields), filt_col))
                rows = table_rows(full)
                if len(got.halos) != int(m.sum()):
                    run.violation('filter-row-count', dict(rows=len(got.halos), expected=int(m.sum()), **desc))
                    continue
                compare_halos(run, got.halos, {cn: v[m] for cn, v in rows.items()}, dict(desc, check='filter'), 'filter-rows-differ')
        rejections(run, truth)
    finally:
        shutil.rmtree(truth['root'], ignore_errors=True)


def rejections(run, truth):
    inds = truth['slab_inds']
    hi = os.path.join(truth['path'], 'halo_info')
    f0 = os.path.join(hi, f'halo_info_{inds[0]:03d}.asdf')
    run.ev()
    cat, err = catoracle.load([f0, f0], cleaned=False)
    if not isinstance(err, ValueError):
        run.violation('duplicate-files-not-rejected', dict(result=repr(err)))
    else:
        run.count('documented_rejections_observed')
    if len(inds) > 1:
        f1 = os.path.join(hi, f'halo_info_{inds[1]:03d}.asdf')
        cat, err = catoracle.load([f1, f0, f1], cleaned=False)
        run.ev()
        if not isinstance(err, ValueError):
            run.violation('duplicate-files-not-rejected', dict(result=repr(err), files='[b, a, b]'))
        else:
            run.count('documented_rejections_observed')
    # files of two different catalogues must not be mixed
    other = gen_catalog.make_tree(np.random.default_rng(5), nslab=1, halos_per_slab=[3], root=truth['root'], sim='SimOther')
    g0 = other['halo_fns'][0]
    for lst in ([f0, g0], [g0, f0]):
        run.ev()
        cat, err = catoracle.load(lst, cleaned=False)
        if not isinstance(err, ValueError):
            run.violation('mixed-catalogues-not-rejected', dict(result=repr(err)))
        else:
            run.count('documented_rejections_observed')
    # an explicit cleandir gives the same catalogue as the automatic search
    a, e1 = catoracle.load(truth['path'], cleaned=True, subsamples=dict(A=True, pid=True), fields=['N', 'id'])
    b, e2 = catoracle.load(truth['path'], cleaned=True, subsamples=dict(A=True, pid=True), fields=['N', 'id'], cleandir=__import__('pathlib').Path(truth['cleandir']))  # a str here raises AttributeError in _setup_file_paths: outside every property, noted in DESIGN.md
    run.ev(2)
    if e1 or e2:
        run.violation('load-fails-' + type(e1 or e2).__name__, dict(error=str(e1 or e2)[:200], cleandir='explicit vs automatic', clean_layout=truth.get('clean_layout')))
    elif not (catoracle.eq_nan(np.asarray(a.halos['N']), np.asarray(b.halos['N'])) and catoracle.eq_nan(np.asarray(a.subsamples['pid']), np.asarray(b.subsamples['pid']))):
        run.violation('cleandir-explicit-differs', dict(clean_layout=truth.get('clean_layout')))
    # a missing path is reported as such
    cat, err = catoracle.load(os.path.join(hi, 'halo_info_999.asdf'), cleaned=False)
    run.ev()
    if not isinstance(err, FileNotFoundError):
        run.violation('missing-file-not-reported', dict(result=repr(err)))


def lc_cases(run, rng, k):
    L = gen_catalog.make_lc_tree(rng, H=int(rng.integers(1, 50)))
    try:
        for kind in ('all', 'none', 'p50'):
            mask = dict(all=np.ones(L['H'], bool), none=np.zeros(L['H'], bool), p50=rng.random(L['H']) < 0.5)[kind]
            filt = MaskFilter([mask])
            sub = [True, False, dict(A=True, pid=True)][k % 3]
            desc = dict(layout='light_cone', H=L['H'], mask=kind, subsamples=repr(sub))
            run.progress(desc)
            run.ev()
            full, e0 = catoracle.load(L['path'], subsamples=sub)
            got, err = catoracle.load(L['path'], subsamples=sub, filter_func=filt)
            run.count('loads', 2)
            if err is not None or e0 is not None:
                e = err or e0
                key = 'lc-filter-renames-missing-N_total' if (isinstance(e, KeyError) and 'N_total' in str(e)) else 'lc-filter-load-fails-' + type(e).__name__
                run.violation(key, dict(error=f'{type(e).__name__}: {e}'[:300], **desc))
                continue
            run.nt(('lc', k, kind, repr(sub)))
            ref = {cn: np.asarray(full.halos[cn])[mask] for cn in full.halos.colnames}
            if len(got.halos) != int(mask.sum()):
                run.violation('filter-row-count', dict(rows=len(got.halos), expected=int(mask.sum()), **desc))
                continue
            if compare_halos(run, got.halos, {c: v for c, v in ref.items()}, desc, 'filter-rows-differ'):
                continue
            if sub:
                catoracle.check_lc_subsamples(run, got, L, mask=mask, desc=desc)
    finally:
        shutil.rmtree(L['root'], ignore_errors=True)


def big_superslab_case(run, rng):
    """A superslab with more halos than any internal block size of the compaction (2^15, 2^16): masks that drop a few early
    rows and keep long runs afterwards, so that every kept row has to move."""
    for H, confs in ((70001, ((True, False, ['N', 'id', 'x_com']), (False, dict(A=True, pid=True), ['id', 'N']), (True, dict(B=True, pos=True), 'DEFAULT_FIELDS'))),
                     (270001, ((False, False, ['N', 'id', 'x_com']), (True, False, ['id', 'v_com', 'N'])))):  # beyond 2^18 rows as well
        _big_superslab(run, rng, H, confs)


def _big_superslab(run, rng, H, confs):
    small = H < 100000
    truth = gen_catalog.make_tree(rng, slab_inds=[0, 1], halos_per_slab=[H, 9], cleaned_away_prob=0.05, zero_part_prob=0.5 if small else 1.0, max_np=3, merge_prob=0.1 if small else 0.0, smallratio=True)
    try:
        for cleaned, sub, fields in confs:
            base_kw = dict(cleaned=cleaned, subsamples=sub, fields=fields)
            desc0 = dict(tree='big-superslab', halos_per_slab=[H, 9], numba_threads=16, cleaned=cleaned, subsamples=repr(sub), fields=fields)
            run.ev()
            run.count('loads')
            full, err = catoracle.load(truth['path'], **base_kw)
            if err is not None:
                run.violation('load-fails-' + type(err).__name__, dict(error=str(err)[:300], **desc0))
                continue
            full_rows = table_rows(full)
            m_first = np.ones(H, bool)
            m_first[:3] = False
            m_one = np.ones(H, bool)
            m_one[40000] = False
            m_block = np.ones(H, bool)
            m_block[5] = False
            m_block[32768 + 7] = False  # a dropped row in the first two blocks of 2^15, none in the third
            m_tail = np.arange(H) >= 100
            for label, m0 in (('drop-first-3', m_first), ('drop-row-40000', m_one), ('drops-in-two-blocks', m_block), ('keep-from-100', m_tail), ('p90', rng.random(H) < 0.9)):
                masks = [m0, np.ones(9, bool)]
                desc = dict(desc0, mask=label, kept=[int(m.sum()) for m in masks])
                run.progress(desc)
                run.ev()
                run.count('loads')
                got, err = catoracle.load(truth['path'], filter_func=MaskFilter(masks), **base_kw)
                if err is not None:
                    run.violation('filter-load-fails-' + type(err).__name__, dict(error=str(err)[:300], **desc))
                    continue
                run.nt(('big-superslab', H, cleaned, repr(sub), label))
                allmask = np.concatenate(masks)
                if len(got.halos) != int(allmask.sum()):
                    run.violation('filter-row-count', dict(rows=len(got.halos), expected=int(allmask.sum()), **desc))
                    continue
                if compare_halos(run, got.halos, {cn: v[allmask] for cn, v in full_rows.items()}, dict(desc, check='filter'), 'filter-rows-differ'):
                    continue
                AB = resolved_AB(sub)
                if AB:
                    catoracle.check_subsamples(run, got, truth, [0, 1], cleaned, AB, masks=masks, desc=dict(desc, check='filter'), key_prefix='filter-subsample')
    finally:
        shutil.rmtree(truth['root'], ignore_errors=True)


# ---------------------------------------------------------------------------------------------------------------------------
# round 11: what a FAILED or REJECTED load leaves behind must not reach a later valid load


class _Hidden:
    """Temporarily take one file of a generated tree away (a truncated copy / an interrupted transfer), restore on exit."""

    def __init__(self, fn):
        self.fn = fn

    def __enter__(self):
        os.rename(self.fn, self.fn + '.hidden')

    def __exit__(self, *a):
        os.rename(self.fn + '.hidden', self.fn)


def _find(root, name):
    for d, _, files in os.walk(root):
        if name in files:
            return os.path.join(d, name)
    return None


FAIL_KINDS = ('filter-keyerror-first', 'filter-zerodivision-middle', 'unknown-field', 'nonexistent-later-file-in-list', 'missing-cleaning-file-later-slab', 'filter-raises-last',
              'missing-particle-file-later-slab', 'filter-mask-wrong-length')


def failing_load(run, kind, T):
    """One call on tree T that the unchanged loader rejects / that fails part-way.  Returns the exception (or None if, unexpectedly, none)."""
    inds = T['slab_inds']
    fns = list(T['halo_fns'])
    n = len(inds)
    calls = [0]

    def raising_filter(at, exc):
        def f(h):
            k = calls[0]
            calls[0] += 1
            if k == at:
                if exc == 'key':
                    return np.asarray(h['x_L2com'])[:, 0] > 0  # a column that was not asked for: KeyError
                return np.ones(len(h), bool) & (1 // (k - at) > 0)  # ZeroDivisionError
            return np.arange(len(h)) % 2 == 0

        return f

    if kind == 'filter-keyerror-first':
        _, err = catoracle.load(T['path'], fields=['id', 'N'], cleaned=False, subsamples=False, filter_func=raising_filter(0, 'key'))
    elif kind == 'filter-zerodivision-middle':
        _, err = catoracle.load(T['path'], fields=['id', 'N', 'x_com'], cleaned=True, subsamples=dict(A=True, pid=True), filter_func=raising_filter(n // 2, 'zero'))
    elif kind == 'filter-raises-last':
        _, err = catoracle.load(list(reversed(fns)), fields='DEFAULT_FIELDS', cleaned=False, subsamples=False, filter_func=raising_filter(n - 1, 'zero'))
    elif kind == 'unknown-field':
        _, err = catoracle.load(T['path'], fields=['id', 'no_such_field_xyz'], cleaned=False, subsamples=False)
    elif kind == 'nonexistent-later-file-in-list':
        ghost = os.path.join(os.path.dirname(fns[0]), f'halo_info_{max(inds) + 3:03d}.asdf')
        _, err = catoracle.load(fns + [ghost], fields=['id', 'N'], cleaned=False, subsamples=False)
    elif kind == 'missing-cleaning-file-later-slab':
        fn = _find(T['root'], f'cleaned_halo_info_{inds[-1]:03d}.asdf')
        with _Hidden(fn):
            _, err = catoracle.load(T['path'], fields=['id', 'N'], cleaned=True, subsamples=False)
    elif kind == 'missing-particle-file-later-slab':
        fn = _find(T['path'], f'halo_rv_A_{inds[-1]:03d}.asdf')
        with _Hidden(fn):
            _, err = catoracle.load(T['path'], fields=['id', 'N'], cleaned=False, subsamples=dict(A=True, pos=True))
    elif kind == 'filter-mask-wrong-length':
        _, err = catoracle.load(T['path'], fields=['id', 'N'], cleaned=False, subsamples=False, filter_func=lambda h: np.ones(len(h) + 1, bool))
    else:
        raise AssertionError(kind)
    return err


def after_failure_cases(run, rng, t):
    """Catalogues X and Y: same simulation name, same superslab numbers (hence the same file names), different directories, different
    halo counts and rows.  Reference loads of Y first (nothing has failed yet in this case); then, for each valid load of Y, one or
    two failing loads (on X, sometimes on Y itself) immediately before it.  Verdict only from the valid load."""
    nslab = int(rng.integers(2, 5))
    inds = sorted(int(x) for x in rng.choice(np.arange(0, 30), nslab, replace=False)) if t % 2 else list(range(nslab))
    hpsX = [int(rng.integers(1, 20)) for _ in inds]
    hpsY = [int(rng.integers(1, 20)) for _ in inds]
    for j in range(nslab):
        if hpsY[j] == hpsX[j]:
            hpsY[j] += 1 + j
    kw = dict(cleaned_away_prob=0.3, zero_part_prob=0.25, smallratio=True)
    X = gen_catalog.make_tree(rng, slab_inds=inds, halos_per_slab=hpsX, compression=[None, 'zlib'][t % 2], clean_layout=1, **kw)
    Y = gen_catalog.make_tree(rng, slab_inds=inds, halos_per_slab=hpsY, compression=[None, 'blsc', 'zlib'][t % 3], clean_layout=[1, 3, 2, 4][t % 4], **kw)
    try:
        hi = os.path.join(Y['path'], 'halo_info')
        fn = lambda s: os.path.join(hi, f'halo_info_{s:03d}.asdf')  # noqa
        rev = list(reversed(inds))
        fields_opts = ['DEFAULT_FIELDS', ['N', 'id', 'x_com'], ['id', 'sigmavMid_L2com', 'N'], 'all']
        valid = [
            ('zdir', Y['path'], list(inds), None),
            ('zdir', Y['path'], list(inds), 'p50'),
            ('list_reversed', [fn(s) for s in rev], rev, ['none_in_one', None, 'p90'][t % 3]),
            ('single_later_file', fn(inds[-1]), [inds[-1]], [None, 'p50'][t % 2]),
            ('zdir', Y['path'], list(inds), 'all'),
        ]
        plan = []
        for v, (fname, path, slabs, mkind) in enumerate(valid):
            cleaned = bool((t + v) % 2)
            sub = subsample_choice(rng, t + 2 * v + 1)
            fields = fields_opts[(t + v) % 4]
            base_kw = dict(cleaned=cleaned, subsamples=sub, fields=fields)
            masks = None if mkind is None else [mask_for(rng, mkind, Y['slabs'][s], j, len(slabs)) for j, s in enumerate(slabs)]
            # reference: the unfiltered load of the same files, made before anything has failed
            run.count('loads')
            ref, e0 = catoracle.load(path, **base_kw)
            plan.append((fname, path, slabs, mkind, base_kw, masks, ref, e0))
        for v, (fname, path, slabs, mkind, base_kw, masks, ref, e0) in enumerate(plan):
            kinds = [FAIL_KINDS[(2 * (len(plan) * t + v)) % len(FAIL_KINDS)], FAIL_KINDS[(2 * (len(plan) * t + v) + 1 + t % 2 * 2) % len(FAIL_KINDS)]]
            if v == 0 or v == 1:
                kinds = kinds[:1] if (t + v) % 2 else kinds  # a single failed call is enough; two stack their leftovers
            failed = []
            for i, fk in enumerate(kinds):
                on_Y = (t + v + i) % 3 == 2
                T = Y if on_Y else X
                run.progress(dict(workload='after-failure', case=t, failing=fk, on='Y' if on_Y else 'X'))
                err = failing_load(run, fk, T)
                run.count('loads')
                if err is None:
                    run.count('expected_rejections_that_did_not_raise')  # not stated by the property: counted only
                else:
                    run.count('rejected_calls_before_valid_ones')
                    run.count('rejected_' + fk)
                failed.append(dict(kind=fk, on='the same catalogue' if on_Y else 'another catalogue with the same file names', raised=type(err).__name__ if err is not None else None))
            desc = dict(workload='valid load after failed load(s)', case=t, slab_inds=inds, halos_per_slab=hpsY, halos_per_slab_other_catalogue=hpsX, files=fname, slabs_loaded=slabs, mask=mkind,
                        kept=None if masks is None else [int(m.sum()) for m in masks], failed_calls_before=failed, **{k_: (repr(v_) if k_ == 'subsamples' else v_) for k_, v_ in base_kw.items()})
            run.progress(desc)
            run.ev()
            run.count('loads')
            run.count('valid_loads_after_failed_ones')
            filt = None if masks is None else MaskFilter(masks)
            got, err = catoracle.load(path, **(dict(base_kw, filter_func=filt) if filt else base_kw))
            if e0 is not None:
                continue  # the reference itself did not load: nothing to compare with (the main workload reports such loads)
            if err is not None:
                run.violation('after-failed-load-valid-load-fails-' + type(err).__name__, dict(error=f'{type(err).__name__}: {err}'[:300], **desc))
                continue
            run.nt(('after-failure', t, fname, mkind, tuple(f['kind'] + '/' + f['on'][:8] for f in failed)))
            allmask = np.ones(len(ref.halos), bool) if masks is None else np.concatenate(masks)
            # (1) ground truth per superslab: the rows of each superslab are those of Y's own file
            bad = False
            for cn, src, tcol in (('id', 'raw', 'id'), ('N', 'clean' if base_kw['cleaned'] else 'raw', 'N_total' if base_kw['cleaned'] else 'N')):
                if cn not in got.halos.colnames:
                    continue
                want = np.concatenate([np.asarray(Y['slabs'][s][src][tcol])[np.ones(Y['slabs'][s]['H'], bool) if masks is None else masks[j]] for j, s in enumerate(slabs)])
                a = np.asarray(got.halos[cn])
                run.count('halo_columns_compared')
                if a.shape != want.shape or not np.array_equal(a.astype(np.int64), want.astype(np.int64)):
                    w = dict(column=cn, rows=len(a), expected_rows=len(want))
                    if a.shape == want.shape:
                        r = int(np.nonzero(a.astype(np.int64) != want.astype(np.int64))[0][0])
                        offs = np.cumsum([Y['slabs'][s]['H'] if masks is None else int(masks[j].sum()) for j, s in enumerate(slabs)])
                        w.update(first_bad_row=r, in_superslab=slabs[int(np.searchsorted(offs, r, side='right'))], got=int(a[r]), expected=int(want[r]))
                        sX = X['slabs'][w['in_superslab']]
                        w['value_is_in_the_other_catalogue_same_superslab'] = bool(np.isin(a[r], np.asarray(sX[src][tcol])))
                    bad = run.violation('valid-load-after-failed-load-differs', dict(w, check='ground truth of the superslab files', **desc)) or True
                    break
            if bad:
                continue
            # (2) every column: the (masked) unfiltered load of the same files made before the failure
            if len(got.halos) != int(allmask.sum()):
                run.violation('valid-load-after-failed-load-differs', dict(rows=len(got.halos), expected=int(allmask.sum()), check='row count', **desc))
                continue
            if compare_halos(run, got.halos, {cn: v_[allmask] for cn, v_ in table_rows(ref).items()}, dict(desc, check='same files loaded before the failure'), 'valid-load-after-failed-load-differs'):
                continue
            # (3) particle slices
            AB = resolved_AB(base_kw['subsamples'])
            if AB:
                catoracle.check_subsamples(run, got, Y, slabs, base_kw['cleaned'], AB, masks=masks, desc=dict(desc, check='particle slices'), key_prefix='after-failed-load-subsample')
            if run.too_many():
                return
    finally:
        shutil.rmtree(X['root'], ignore_errors=True)
        shutil.rmtree(Y['root'], ignore_errors=True)



def check(run):
    catoracle.fast_io()
    catoracle.install_contracts()
    rng = run.rng(0)
    ntree = 5 if run.quick else 90
    for k in range(ntree):
        tree_cases(run, rng, k)
        if run.too_many():
            return
    for k in range(3 if run.quick else 30):
        lc_cases(run, rng, k)
    big_superslab_case(run, run.rng(4))
    rng11 = run.rng(11)
    for t in range(6 if run.quick else 40):
        after_failure_cases(run, rng11, t)
        if run.too_many():
            break
    catoracle.report_contracts(run)
    run.sample(dict(files='list_reversed', mask='none_in_one', cleaned=True, subsamples="{'A': True, 'pid': True}", fields=['N', 'id', 'x_com']))
    for kind in ('all', 'none'):
        if not run.counters.get('filter_mask_' + kind):
            run.note_inconclusive(f'no filtered load with mask class {kind} completed')


def replay(run, data):
    check(run)
