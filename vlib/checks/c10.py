"""C10 — the galaxy catalogue is identical for every thread count.

Cross-thread differential of the real compiled gen_gal_cat for Nthread = 1..16 on identical inputs
(bit for bit, every column, row order, Ncent), each also compared with the C09 reference catalogue;
heap poisoning makes an unwritten np.empty row recognisable; fast_concatenate and
_searchsorted_parallel are additionally driven directly against numpy."""

import warnings

import numpy as np

from .. import core, hodref
from . import c09

LEVEL = 'exploration'
RULE = (
    'host tables of size 0,1,2,15,16,17,1003,4099 (fewer than / not divisible by the thread count), particle tables likewise, tracer subsets, every Nthread 1..16; '
    'a case = (tables, tracer subset, Nthread) compared bitwise with Nthread=1 and row by row with the reference model; direct drives of fast_concatenate / '
    '_searchsorted_parallel over sizes 0,1,N1<<N2,N1>>N2 x every Nthread. non-trivial = distinct (table sizes, tracer subset, Nthread>1) with >= 1 galaxy'
)
RULE += (
    ' Added after seeded round 9: mass-ordered tables (halos ascending, particles grouped by host) with every random 1e-9 and strong secondary bias, all thread counts.'
)
ASSUMPTIONS = ['MALLOC_PERTURB_ poisoning active (self-tested); a poisoned element of an output column is an element that was never written']

COLS = ('x', 'y', 'z', 'vx', 'vy', 'vz', 'mass', 'id')


def same(a, b):
    for t in a:
        if int(a[t]['Ncent']) != int(b[t]['Ncent']):
            return t, 'Ncent'
        for c in COLS:
            x, y = np.asarray(a[t][c]), np.asarray(b[t][c])
            if x.shape != y.shape or x.dtype != y.dtype or not np.array_equal(x, y):
                return t, c
    return None


def check(run):
    import numba

    from abacusnbody.hod import GRAND_HOD as GH
    from abacusnbody.hod import abacus_hod as AH

    if not core.poison_self_test():
        run.note_inconclusive('heap poisoning inactive')
        return
    ref = hodref.Reference(GH)
    rng = run.rng(0)
    sizes = [0, 1, 2, 15, 16, 17, 1003, 4099]
    if not run.quick:
        sizes += [3, 5, 7, 31, 33, 100, 257, 999, 2048, 9973]
    reps = 1 if run.quick else 3
    k = 0
    for rep in range(reps):
        for H in sizes:
            nsub = 3 if run.quick else 7
            for s in range(nsub):
                k += 1
                case = c09.make_case(rng, ref, k, sizes=[H])  # k runs over all tracer subsets, option flags and parameter styles
                # particles: sizes from the same hazardous list
                desc = dict(case['desc'])
                run.progress(desc)
                if k % 3 == 1 or ({'LRG', 'ELG'} <= set(case['tracers']) and k % 2 == 0):
                    # stored randoms that are exactly 0 (also where the first tracer's slice has zero width, so that 0 sits on a slice
                    # edge): whichever side such a tie falls, it must fall the same way in the count and the fill pass and for every thread count
                    if len(case['halo']['hrandoms']) > 3:
                        case['halo']['hrandoms'][::3] = 0.0
                    if len(case['part']['prandoms']) > 3:
                        case['part']['prandoms'][::3] = 0.0
                    run.count('cases_with_exact_zero_randoms')
                exp, info = hodref.reference_catalog(ref, case['halo'], case['part'], case['tracers'], case['params'], case['enable_ranks'], case['rsd'])
                ngal = sum(len(e['id']) for e in exp.values())
                base = None
                for nt in range(1, 17):
                    core.poison_prime()
                    run.ev()
                    got = c09.run_real(GH, case, nt)
                    for t in got:
                        for c in COLS:
                            a = np.asarray(got[t][c])
                            if a.size and core.poison_count(a):
                                run.violation('catalogue-row-unwritten', dict(tracer=t, column=c, rows=core.poison_count(a), Nthread=nt, **desc))
                    run.count('poison_scans', len(got) * len(COLS))
                    if nt == 1:
                        base = got
                        if not (info['ambc'].any() or info['ambs'].any()):
                            c09.compare_catalog(run, got, exp, dict(desc, Nthread=1), case['params']['Lbox'], key_prefix='catalogue-vs-reference')
                        continue
                    d = same(base, got)
                    if ngal >= 1:
                        run.nt((H, len(case['part']['pinds']), tuple(case['desc']['tracers']), nt))
                    if d:
                        run.violation('catalogue-depends-on-nthread', dict(tracer=d[0], column=d[1], Nthread=nt, **desc))
                        break
                if k <= 2:
                    run.sample(dict(desc, galaxies=ngal, thread_counts='1..16'))
                if run.too_many():
                    return
    # ---- tables ordered by host mass (halos ascending, particles grouped by host), every random number tiny (1e-9) so that whatever has a
    # positive occupation width is selected, secondary-bias terms on: thread blocks that hold only light hosts, only heavy hosts, or
    # the hosts around the occupation threshold
    for j in range(6 if run.quick else 60):
        k += 1
        kk = 4 * j + 1 + (j % 3)  # with environment columns, all parameter styles
        case = c09.make_case(rng, ref, kk, sizes=[[300, 1003, 4099][j % 3]])
        halo, part = case['halo'], case['part']
        if not len(part['pinds']):
            continue
        halo['hmass'][:] = np.sort(halo['hmass'])
        order = np.argsort(part['pinds'], kind='stable')
        for name in list(part):
            if isinstance(part[name], np.ndarray) and len(part[name]) == len(order):
                part[name] = np.ascontiguousarray(part[name][order])
        part['phmass'][:] = halo['hmass'][part['pinds']]
        halo['hrandoms'][:] = 1e-9  # (not 0: a random number of exactly 0 is also "inside" a slice of zero width)
        part['prandoms'][:] = 1e-9
        for t, p_ in case['tracers'].items():
            p_.update(Acent=[-0.9, 0.8][j % 2], Bcent=[-0.6, 0.5][(j // 2) % 2], Asat=0.4, Bsat=-0.3)
        desc = dict(case['desc'], family='mass-ordered tables, all randoms 1e-9')
        run.progress(desc)
        exp, info = hodref.reference_catalog(ref, halo, part, case['tracers'], case['params'], case['enable_ranks'], case['rsd'])
        base = None
        for nt in range(1, 17):
            run.ev()
            got = c09.run_real(GH, case, nt)
            if nt == 1:
                base = got
                if not (info['ambc'].any() or info['ambs'].any()):
                    c09.compare_catalog(run, got, exp, dict(desc, Nthread=1), case['params']['Lbox'], key_prefix='catalogue-vs-reference')
                continue
            d = same(base, got)
            run.nt(('mass-ordered', j, nt))
            if d:
                run.violation('catalogue-depends-on-nthread', dict(tracer=d[0], column=d[1], Nthread=nt, **desc))
                break
        run.count('mass_ordered_cases')
    # ---- exhaustive small-size sweep: every table size 1..Nmax x every thread count, with *every* host and particle
    # selected (random 0, wide first slice), so that a host or particle falling outside all thread blocks is a missing row
    Nmax = 130 if run.quick else 700
    tr1 = {'LRG': hodref.gen_tracers(rng, ('LRG',), fancy=False)['LRG']}
    tr1['LRG'].update(logM_cut=11.0, logM1=11.5, sigma=0.3, kappa=0.1, ic=1.0)
    params1 = dict(z=0.5, velz2kms=100.0, Lbox=2000.0, origin=None, Mpart=2.1e9, chunk=-1)
    extra_sizes = [255, 256, 257, 512, 768, 1024, 2048, 4096] if run.quick else [255, 256, 257, 511, 512, 513, 768, 1024, 1280, 2048, 3072, 4096, 8192, 65536, 65537]  # per-thread blocks holding exactly 2^8, 2^9 ... selected hosts / particles
    Nall = max(Nmax, max(extra_sizes))
    halo_all, part_all = hodref.gen_tables(rng, Nall, Nall, lbox=2000.0, with_env=False)
    halo_all['hmass'][:] = 1e14
    halo_all['hrandoms'][:] = 0.0
    halo_all['hmultis'][:] = 1.0
    part_all.update(phmass=np.full(Nall, 1e14), prandoms=np.zeros(Nall), pweights=np.full(Nall, 0.3), pinds=np.arange(Nall, dtype=np.int64), phid=halo_all['hid'].copy(), phvel=halo_all['hvel'].copy())
    for N in list(range(1, Nmax + 1)) + extra_sizes:
        h = {k2: v[:N] for k2, v in halo_all.items()}
        p = {k2: v[:N] for k2, v in part_all.items()}
        base = None
        for nt in range(1, 17):
            run.ev()
            with warnings.catch_warnings():
                warnings.simplefilter('ignore')
                got = GH.gen_gal_cat(h, p, tr1, params1, Nthread=nt, enable_ranks=False, rsd=False)['LRG']
            if int(got['Ncent']) != N or len(got['id']) != 2 * N:
                run.violation('size-sweep-row-missing', dict(N=N, Nthread=nt, Ncent=int(got['Ncent']), galaxies=len(got['id']), expected_galaxies=2 * N))
                break
            if nt == 1:
                base = got
            elif any(not np.array_equal(np.asarray(got[c]), np.asarray(base[c])) for c in COLS):
                run.violation('catalogue-depends-on-nthread', dict(N=N, Nthread=nt, sweep='all-selected'))
                break
        run.count('size_sweep_sizes')
        if N % 16 == 0:
            run.nt(('size-sweep', N))
        if run.too_many():
            return
    # ---- prange write-set monitor on the interpreted count/fill passes (decides all schedules of each case)
    from .. import hodrace

    nmon = 16 if run.quick else 192  # case numbers 7000.. cycle through rsd x light-cone origin x ranks x tracer subsets: 16 reach every branch of both passes
    for j in range(nmon):
        case = c09.make_case(rng, ref, 7000 + j, sizes=[[2, 17, 60, 300][j % 4]])
        if len(case['part']['pinds']) > 800:
            keep = 800
            case['part'] = {k2: v[:keep] for k2, v in case['part'].items()}
        # a random of exactly 0 ties with the zero-width slice of a disabled first tracer; the interpreter
        # (unlike numba) refuses to read that tracer's never-assigned parameters, so keep such ties out
        case['halo']['hrandoms'][case['halo']['hrandoms'] == 0] = 1e-12
        case['part']['prandoms'][case['part']['prandoms'] == 0] = 1e-12
        if len(case['part']['pweights']) > 4:
            case['part']['pweights'][:: 5] = 0.0  # weight 0: never selected, but every pass must still handle the particle
        if len(case['halo']['hmultis']) > 4:
            case['halo']['hmultis'][:: 7] = 0.0
        nt = [16, 2, 3, 7, 5, 11, 13, 15][j % 8]
        desc = dict(case['desc'], Nthread=nt, monitor='prange write-set')
        run.progress(desc)
        run.ev()
        with warnings.catch_warnings():
            warnings.simplefilter('ignore')
            res = hodrace.run_gen_gals_monitored(GH, case['halo'], case['part'], case['tracers'], case['params'], nt, case['enable_ranks'], case['rsd'])
        for kern, a in res.items():
            run.count('write_set_cells_recorded', a['cells'])
            run.count('write_set_regions', a['regions'])
            if a['nconflicts']:
                run.violation('hod-pass-shared-write', dict(kernel=kern, n_conflicting_elements=a['nconflicts'], example=a['conflicts'][0], **desc))
            if a.get('nuninit'):
                run.violation('hod-pass-reads-uninitialised-element', dict(kernel=kern, reads=a['uninit_reads'], count=a['nuninit'], **desc))
            if a['nmulti'] or a['nunwritten']:
                run.violation('hod-fill-pass-not-exactly-once', dict(kernel=kern, written_twice=a['multi_written'], unwritten=a['unwritten'], **desc))
        run.nt(('write-set', j, nt))
    if not run.counters.get('write_set_cells_recorded'):
        run.note_inconclusive('prange write-set monitor recorded nothing')
    # ---- direct drives
    for N1, N2 in [(0, 0), (0, 5), (5, 0), (1, 1), (1, 1000), (1000, 1), (17, 16), (1003, 4099), (3, 2), (2, 40)]:
        for dt in (np.float64, np.int64):
            a = (np.arange(N1) + 1).astype(dt)
            b = (-(np.arange(N2) + 1)).astype(dt)
            for nt in range(1, 17):
                core.poison_prime()
                run.ev()
                run.progress(dict(kernel='fast_concatenate', N1=N1, N2=N2, Nthread=nt))
                out = GH.fast_concatenate(a, b, nt)
                if not np.array_equal(out, np.concatenate([a, b])):
                    run.violation('fast-concatenate-differs', dict(N1=N1, N2=N2, Nthread=nt, dtype=str(np.dtype(dt)), poisoned=core.poison_count(out)))
                run.nt(('concat', N1, N2, nt))
    for N, Q in [(0, 0), (1, 0), (1, 1), (5, 1000), (1000, 5), (1003, 4099), (16, 17)]:
        a = np.sort(rng.choice(np.arange(10 * max(N, 1)), N, replace=False)).astype(np.int64)
        v = (rng.choice(a, Q) if N else np.zeros(0, dtype=np.int64)).astype(np.int64)
        for nt in range(1, 17):
            run.ev()
            run.progress(dict(kernel='_searchsorted_parallel', N=N, Q=Q, Nthread=nt))
            numba.set_num_threads(nt)
            out = AH._searchsorted_parallel(a, v)
            if not np.array_equal(np.asarray(out), np.searchsorted(a, v)):
                run.violation('searchsorted-parallel-differs', dict(N=N, Q=Q, Nthread=nt))
            run.nt(('searchsorted', N, Q, nt))


def replay(run, data):
    check(run)
