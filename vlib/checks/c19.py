"""C19 — cumsum writes exactly the selected partial sums for every length.

Monitors: reference model (Python-int prefix sums) + canary red zones around `out` and `arr`
in the production build + the same grid in the bounds-sanitized build (NUMBA_BOUNDSCHECK=1),
every (dtype pair, N) group in a crash-capturing child process."""

import numpy as np

from .. import sandbox  # noqa

LEVEL = 'exploration'
RULE = (
    'complete grid: lengths 0..64 and {100,1000,100000} x 4 (initial,final) pairs x offsets {0,5,2^40,2^53+1,2^62+3 where representable (64-bit totals must come back exactly); 0.5 and -1.25 for float outputs} '
    'x dtype pairs (i4->i4,u4->u8,i8->i8,i8->u8,f4->f8,f8->f8,list->i8,list->u8; signed elements into unsigned outputs include negatives when the offset keeps every partial sum positive) x out length N_out, N_out-1, N_out+1; '
    'a case is (dtype pair, N, flags, offset, outlen delta); non-trivial = distinct (dtype pair, N, flags) with N_out>=0; '
    'each case run in the production build with canaries and in the bounds-sanitized build'
)
RULE += (
    ' Added after seeded round 10: one-process call histories mixing int / float lists and tuples and i4 / i8 / f4 / f8 arrays of varying (often non-increasing) length.'
)
RULE += (
    ' Added after seeded round 9: input views that are reversed, a column of a 2-D array, or a field of a record array.'
)
ASSUMPTIONS = [
    'values are chosen so that no partial sum overflows the output dtype',
    'an empty Python list cannot be typed by numba and is outside the domain',
]

DTYPES = [('i4', 'i4'), ('u4', 'u8'), ('i8', 'i8'), ('f4', 'f8'), ('f8', 'f8'), ('list', 'i8'), ('list', 'u8'), ('i8', 'u8')]
GUARD = 16
CANARY = 77


def lengths(run):
    L = list(range(0, 65)) + [100, 1000, 100000]
    return L


def ref_selected(vals, offset, initial, final):
    P = [offset if isinstance(offset, float) else int(offset)]
    for v in vals:
        P.append(P[-1] + int(v))
    N = len(vals)
    sel = []
    if N == 0:
        if initial and final:
            sel = [P[0]]
        elif initial or final:
            sel = []
        else:
            sel = None  # impossible length -1
    else:
        sel = P[(0 if initial else 1) : (N + 1 if final else N)]
    return sel, P[-1]


def group_case(case):
    """Runs in the child. case = dict(din, dout, N, seed, reps)"""
    from abacusnbody.util import cumsum

    din, dout, N, seed = case['din'], case['dout'], case['N'], case['seed']
    rng = np.random.default_rng([seed, 19, N])
    problems = []
    nrun = 0
    nrej = 0
    for rep in range(case.get('reps', 1)):
        if din == 'list':
            vals = [int(v) for v in rng.integers(-1000, 1000, N)]
            if N == 0:
                continue  # untypable
        elif din[0] == 'f':
            vals = rng.integers(0, 1000, N).astype(din)
        elif din[0] == 'u':
            vals = rng.integers(0, 1000, N).astype(din)
        else:
            vals = rng.integers(-1000, 1000, N).astype(din)
        for initial in (False, True):
            for final in (False, True):
                for offset in (0, 5, 2**40, 0.5, -1.25, 2**53 + 1, 2**62 + 3):
                    if offset >= 2**40 and not isinstance(offset, float) and dout == 'i4':
                        continue
                    if offset > 2**53 and dout[0] == 'f':
                        continue  # not representable in the output type: nothing exact to expect
                    if isinstance(offset, float) and dout[0] != 'f':
                        continue  # a fractional start is only meaningful for a floating-point output
                    if dout[0] == 'u' and not (din in ('list', 'i8') and not isinstance(offset, float) and offset >= 2**40):
                        vv = [abs(int(v)) for v in vals]
                    else:
                        # (also: signed input with negative elements into an unsigned output whose partial sums all stay positive
                        # thanks to the offset -- numpy.cumsum(a, dtype=uint64) wraps each addend and gets the same sums)
                        vv = [int(v) for v in vals]
                    sel, total = ref_selected(vv, offset, initial, final)
                    N_out = N - 1 + int(initial) + int(final)
                    for delta in (0, -1, 1) if N_out >= 0 else (1, 2, 3):  # no output length is right for an empty input with both flags off
                        L = N_out + delta
                        if L < 0:
                            continue
                        # canary buffers
                        obuf = np.full(L + 2 * GUARD, CANARY, dtype=dout)
                        out = obuf[GUARD : GUARD + L]
                        if din == 'list':
                            arr = list(vv)
                            abuf = None
                        else:
                            abuf = np.full(N + 2 * GUARD, CANARY, dtype=din)
                            abuf[GUARD : GUARD + N] = np.array(vv, dtype=din)
                            arr = abuf[GUARD : GUARD + N]
                            acopy = abuf.copy()
                        desc = dict(din=din, dout=dout, N=N, initial=initial, final=final, offset=offset, outlen=L, N_out=N_out)
                        nrun += 1
                        try:
                            ret = cumsum(arr, out, initial=initial, final=final, offset=offset)
                            raised = None
                        except ValueError as e:
                            raised = e
                            ret = None
                        except Exception as e:
                            if sandbox.is_index_error(e):
                                problems.append(dict(kind='index_error', msg=str(e)[:200], **desc))
                                continue
                            # every case of the grid is a valid call (or a wrong-length one, rejected with ValueError): anything else raised is a failure of the helper
                            problems.append(dict(kind='raises_' + type(e).__name__, msg=str(e)[:200], **desc))
                            continue
                        guards_ok = bool((obuf[:GUARD] == CANARY).all() and (obuf[GUARD + L :] == CANARY).all())
                        if abuf is not None:
                            guards_ok &= bool((abuf == acopy).all())
                        if not guards_ok:
                            problems.append(dict(kind='canary_damaged', **desc))
                            continue
                        if delta != 0 or sel is None:
                            if raised is None:
                                problems.append(dict(kind='wrong_length_accepted', **desc))
                            else:
                                nrej += 1
                                if L and not (out == CANARY).all():
                                    problems.append(dict(kind='written_before_reject', **desc))
                            continue
                        if raised is not None:
                            problems.append(dict(kind='correct_length_rejected', msg=str(raised)[:200], **desc))
                            continue
                        exp = np.array(sel, dtype=dout) if len(sel) else np.zeros(0, dtype=dout)
                        if not np.array_equal(out, exp):
                            bad = np.nonzero(out != exp)[0]
                            problems.append(dict(kind='wrong_sums', first_bad=int(bad[0]), got=out[bad[:3]].tolist(), exp=exp[bad[:3]].tolist(), **desc))
                        elif np.dtype(dout).type(ret) != np.dtype(dout).type(total) or (dout[0] in 'iu' and int(ret) != int(total)):
                            problems.append(dict(kind='wrong_total', got=repr(ret), exp=repr(total), **desc))
    return dict(problems=problems[:12], nprob=len(problems), nrun=nrun, nrej=nrej)


def classify(p):
    if p.get('N') == 0:
        return 'cumsum-empty-input'
    return 'cumsum-' + p['kind'].replace('_', '-')


def check(run):
    cases = []
    Ls = lengths(run)
    reps = 1 if run.quick else 20
    for din, dout in DTYPES:
        for N in Ls:
            if N == 100000 and (run.quick and din == 'list'):
                continue
            cases.append(dict(din=din, dout=dout, N=N, seed=run.seed, reps=(reps if N <= 1000 else 1)))
    # group several (dtype,N) per child call?  No: one group per case so a crash is attributed.
    for build, env in (('production', {}), ('sanitized', sandbox.SANITIZE_ENV)):
        # one child per dtype pair keeps JIT cost bounded (a specialisation per pair)
        res = sandbox.run_batch('vlib.checks.c19:group_case', cases, env=env, timeout=1500, label=build)
        for case, r in zip(cases, res):
            key = (case['din'], case['dout'], case['N'])
            if r['status'] == 'ok':
                rr = r['result']
                run.ev(rr['nrun'])
                run.count(f'{build}_calls', rr['nrun'])
                run.count(f'{build}_rejections_observed', rr['nrej'])
                if rr['nrun']:
                    for fl in range(4):
                        run.nt(key + (fl,))
                for p in rr['problems']:
                    p['build'] = build
                    run.violation(classify(p), p)
                if rr['nprob'] > len(rr['problems']):
                    run.count('problems_truncated', rr['nprob'] - len(rr['problems']))
            elif r['status'] == 'exception':
                if r.get('index_error'):
                    run.violation(classify(dict(N=case['N'], kind='index_error')), dict(build=build, case=case, msg=r['msg']))
                else:
                    run.note_inconclusive(f'{build} {key}: {r["etype"]}: {r["msg"][:200]}')
            elif r['status'] == 'crash':
                run.ev()
                run.count(f'{build}_crashes')
                run.violation(classify(dict(N=case['N'], kind='crash')), dict(build=build, case=case, returncode=r['returncode'], stderr=r['stderr'][-300:]))
            else:
                run.note_inconclusive(f'{build} {key}: {r["status"]}')
    # non-contiguous (strided) input and output views: same sums, nothing between the strided elements touched
    from abacusnbody.util import cumsum as _cs

    r2 = run.rng(6)
    for t in range(60 if run.quick else 600):
        N = int(r2.integers(0, 40))
        initial, final = bool(r2.integers(0, 2)), bool(r2.integers(0, 2))
        n_out = N - 1 + initial + final
        if n_out < 0:
            continue
        step_a, step_o = int(r2.integers(2, 4)), int(r2.integers(2, 4))
        abuf = r2.integers(-50, 50, N * step_a + 3).astype(np.int64)
        obuf = np.full(n_out * step_o + 3, 777, dtype=np.int64)
        arr, out = abuf[: N * step_a : step_a], obuf[: n_out * step_o : step_o]
        kind = t % 4  # other ways a count column arrives as a view: reversed, a column of a 2-D array, a field of a record array
        if kind == 1:
            arr = arr[::-1]
        elif kind == 2:
            arr = np.ascontiguousarray(np.stack([arr, arr + 1], axis=1))[:, 0]
        elif kind == 3:
            rec = np.zeros(N, dtype=[('pad', 'i2'), ('n', 'i8')])
            rec['n'] = arr
            arr = rec['n']
        keep = obuf.copy()
        run.ev()
        try:
            tot = _cs(arr, out, initial=initial, final=final, offset=3)
        except Exception as e:
            run.violation('cumsum-strided-views', dict(N=N, initial=initial, final=final, view_kind=['step', 'reversed', '2-D column', 'record field'][kind], problem=f'raises {type(e).__name__}: {e}'[:200]))
            continue
        sel, total = ref_selected([int(x) for x in arr], 3, initial, final)
        mask = np.ones(len(obuf), bool)
        mask[: n_out * step_o : step_o] = False
        run.nt(('strided', N, initial, final))
        if [int(x) for x in out] != sel or int(tot) != total or not np.array_equal(obuf[mask], keep[mask]):
            run.violation('cumsum-strided-views', dict(N=N, initial=initial, final=final, got=[int(x) for x in out][:6], expected=sel[:6], untouched_elements_changed=bool(not np.array_equal(obuf[mask], keep[mask]))))
    # chaining: the returned total of one call is the offset of the next (how per-file offsets are accumulated); with values on a
    # 1/8 lattice every float sum is exact, so two chained calls must equal one cumulative sum of the concatenation
    r3 = run.rng(7)
    for t in range(60 if run.quick else 2000):
        n1, n2 = int(r3.integers(1, 30)), int(r3.integers(1, 30))
        dt = [np.float64, np.float32][t % 2]
        a = (r3.integers(-80, 80, n1 + n2) / 8.0).astype(dt)
        off0 = float(r3.integers(-40, 40)) / 8.0
        o1, o2 = np.full(n1, np.nan), np.full(n2, np.nan)
        run.ev()
        run.nt(('chained', n1, n2, t % 2))
        t1 = _cs(a[:n1], o1, offset=off0)
        t2 = _cs(a[n1:], o2, offset=t1)
        ref = off0 + np.cumsum(a.astype(np.float64))
        if not (np.array_equal(np.concatenate([o1, o2]), ref) and float(t1) == ref[n1 - 1] and float(t2) == ref[-1]):
            run.violation('cumsum-fractional-offset', dict(n1=n1, n2=n2, offset=off0, total1=float(t1), expected_total1=float(ref[n1 - 1]), total2=float(t2), expected_total2=float(ref[-1]), dtype=np.dtype(dt).str))
    # call history: one process, consecutive calls that differ in container (list / array), element type and length -- the grid above
    # gives every (dtype pair, N) its own child, so state carried from one call to the next (a staging buffer, a cached
    # specialisation) is only reachable here.  Values on a 1/8 lattice: every float sum is exact.
    r4 = run.rng(8)
    prev = None
    for t in range(300 if run.quick else 6000):
        kind = ['list_int', 'list_float', 'i8', 'f8', 'f4', 'i4', 'tuple_int', 'tuple_float'][int(r4.integers(0, 8))]
        N = int(r4.integers(1, 40)) if t % 5 else int(r4.integers(1, 4))
        if t % 2 and prev is not None and prev[1] > 1:
            N = int(r4.integers(1, prev[1] + 1))  # not longer than the call before: a buffer sized by that call would be reused
        ints = r4.integers(-80, 80, N)
        if kind in ('list_int', 'tuple_int'):
            vals = [int(v) for v in ints]
        elif kind in ('list_float', 'tuple_float'):
            vals = [float(v) / 8.0 + 0.125 for v in ints]
        elif kind[0] == 'i':
            vals = ints.astype(kind)
        else:
            vals = (ints / 8.0 + 0.125).astype(kind)
        arr = tuple(vals) if kind.startswith('tuple') else vals
        out = np.full(N, np.nan)
        run.ev()
        run.nt(('history', kind, prev[0] if prev else None))
        try:
            tot = _cs(arr, out)
        except Exception as e:
            run.violation('cumsum-call-history', dict(call=t, this_call=kind, N=N, previous_call=prev, problem=f'raises {type(e).__name__}: {e}'[:200]))
            prev = (kind, N)
            continue
        ref = np.cumsum(np.asarray(vals, dtype=np.float64))
        if not (np.array_equal(out, ref) and float(tot) == ref[-1]):
            run.violation('cumsum-call-history', dict(call=t, this_call=kind, N=N, previous_call=prev, got=out[:4].tolist(), expected=ref[:4].tolist(), total=float(tot), expected_total=float(ref[-1])))
        prev = (kind, N)
    run.count('history_calls', 300 if run.quick else 6000)
    # the helper as used by hod/menv.concat_to_arr (list of neighbour lists, some of them empty)
    from abacusnbody.hod import menv

    rng = run.rng(5)
    for t in range(40 if run.quick else 1000):
        nl = int(rng.integers(1, 30))
        lists = [[int(x) for x in rng.integers(0, 1000, int(rng.integers(0, 6) if t % 3 else 0 if rng.random() < 0.7 else 3))] for _ in range(nl)]
        run.ev()
        res, starts = menv.concat_to_arr(lists)
        exp_starts = np.concatenate([[0], np.cumsum([len(x) for x in lists])]).astype(np.int64)
        exp = np.array([x for ell in lists for x in ell], dtype=np.int64)
        run.nt(('concat_to_arr', t))
        if not (np.array_equal(starts, exp_starts) and np.array_equal(res, exp)):
            run.violation('cumsum-in-concat-to-arr', dict(lengths=[len(x) for x in lists], starts=starts.tolist()[:10], expected=exp_starts.tolist()[:10]))
    run.count('concat_to_arr_calls', 40 if run.quick else 1000)
    run.sample(dict(din='u4', dout='u8', N=3, initial=True, final=True, offset=5, outlen=4, note='example of a grid point'))
    run.sample(cases[0])
    run.sample(cases[-1])
    run.exhaustive = True
    run.extra['explanation'] = 'finite grid stated in rule swept completely in both builds'


def replay(run, data):
    w = data['witness']
    case = w.get('case') or dict(din=w['din'], dout=w['dout'], N=w['N'], seed=data['seed'], reps=1)
    env = sandbox.SANITIZE_ENV if w.get('build') == 'sanitized' else {}
    r = sandbox.run_batch('vlib.checks.c19:group_case', [case], env=env)[0]
    run.ev()
    run.nt('replay')
    run.nt('replay2')
    if r['status'] == 'ok':
        for p in r['result']['problems']:
            run.violation(classify(p), p)
    elif r['status'] in ('crash',) or r.get('index_error'):
        run.violation(classify(dict(N=case['N'], kind='crash')), r)
