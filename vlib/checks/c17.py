"""C17 — partition_parallel returns a stripe-ordered permutation of its input.

Unique-identity workload (serial number carried by the weight and by the two unused coordinates),
membership oracle in extended precision with an explicit tie rule, input-immutability, poison scan."""

import numpy as np

from .. import core

LEVEL = 'exploration'
RULE = (
    'calls of the real compiled partition_parallel over N in {0,1,2,15,16,17,1000,1e5}, npartition in {1,2,3,7,64,1000,>N}, coord 0..2, f4/f8, '
    'weights absent/f4/f8 (same or other precision than the positions; f8 weights carry a 1/3 fraction), npartition up to 70001 (beyond 16-bit), sort on/off, nthread 1..16 (incl. > N); particle sets: uniform, duplicates, on stripe boundaries +-ulp, at 0 and at BoxSize; '
    'non-trivial = distinct (N class, npartition, coord, dtype, weights, sort, nthread, particle family) with N>=2'
)
RULE += (
    ' Added after seeded round 9: stripe counts 262145 / 600000 / 2^22+1; column-major positions with and without sort and weights.'
)
ASSUMPTIONS = [
    'a particle whose exact x*npartition/BoxSize lies within 4 ulp (position dtype) of an integer may be in either adjacent stripe',
    'positions lie in [0, BoxSize] (documented domain)',
]


def make_positions(rng, N, box, npart, coord, dtype, family):
    x = rng.uniform(0, box, N)
    if family == 'dups' and N:
        vals = rng.uniform(0, box, max(1, N // 10))
        x = rng.choice(vals, N)
    elif family == 'boundaries' and N:
        edges = np.arange(0, npart + 1) * (box / npart)
        e = rng.choice(edges, N).astype(dtype)
        k = rng.integers(-2, 3, N)
        y = e.copy()
        for _ in range(2):
            up = k > 0
            dn = k < 0
            y = np.where(up, np.nextafter(y, dtype(np.inf)), np.where(dn, np.nextafter(y, dtype(-np.inf)), y))
            k = k - np.sign(k)
        x = np.clip(y.astype(np.float64), 0, box)
    elif family == 'ends' and N:
        x = rng.choice(np.array([0.0, box, np.nextafter(dtype(box), dtype(0)), box / 2]), N)
    pos = np.empty((N, 3), dtype=dtype)
    tag = np.arange(1, N + 1)
    o1, o2 = [c for c in range(3) if c != coord]
    pos[:, coord] = x.astype(dtype)
    pos[:, o1] = tag  # exact up to 2^24 in f4
    pos[:, o2] = -tag
    np.clip(pos[:, coord], 0, dtype(box), out=pos[:, coord])
    return pos, tag


def ref_stripe(x, npart, box):
    q = x.astype(np.longdouble) * np.longdouble(npart) / np.longdouble(box)
    s = np.minimum(np.floor(q).astype(np.int64), npart - 1)
    ulp = np.spacing(np.maximum(np.abs(q), 1).astype(x.dtype)).astype(np.longdouble)
    near = np.abs(q - np.rint(q)) <= 4 * ulp
    return s, near, np.rint(q).astype(np.int64)


def one_call(run, tsc, rng, N, npart, coord, dtype, wkind, sort, nthread, family, box, layout='plain'):
    pos, tag = make_positions(rng, N, box, npart, coord, dtype, family)
    if wkind is None:
        w = None
    else:
        w = tag.astype(wkind)
        if np.dtype(wkind) == np.float64:
            w = w + 1.0 / 3.0  # not representable in float32: a detour through the positions' precision shows
    if layout == 'strided':
        # non-contiguous views are ordinary arrays to the caller
        big = np.zeros((N, 6), dtype=dtype)
        big[:, ::2] = pos
        pos = big[:, ::2]
        if w is not None:
            wb = np.zeros(2 * N, dtype=w.dtype)
            wb[::2] = w
            w = wb[::2]
    elif layout == 'fortran':
        pos = np.asfortranarray(pos)
    if layout != 'plain':
        npart, box = np.int64(npart), (int(box) if float(box).is_integer() else box)
    pos0 = pos.copy()
    w0 = None if w is None else w.copy()
    desc = dict(N=N, npartition=npart, coord=coord, dtype=np.dtype(dtype).str, weights=None if wkind is None else np.dtype(wkind).str, sort=sort, nthread=nthread, family=family, box=float(box), layout=layout)
    core.poison_prime()
    run.ev()
    psort, starts, wsort = tsc.partition_parallel(pos, npart, box, weights=w, coord=coord, nthread=nthread, sort=sort)
    run.count('particles_partitioned', N)
    if N >= 2:
        run.nt((min(N, 1001), npart, coord, desc['dtype'], desc['weights'], sort, nthread, family))
    if not np.array_equal(pos, pos0) or (w is not None and not np.array_equal(w, w0)):
        return run.violation('partition-input-modified', desc)
    if psort.shape != pos.shape or psort.dtype != pos.dtype:
        return run.violation('partition-output-shape', dict(got=psort.shape, **desc))
    if (w is None) != (wsort is None):
        return run.violation('partition-weights-presence', desc)
    if w is not None and (wsort.dtype != w0.dtype or wsort.shape != w0.shape):
        return run.violation('partition-weights-dtype', dict(got=str(wsort.dtype), got_shape=list(wsort.shape), **desc))
    if starts.shape != (npart + 1,) or starts[0] != 0 or starts[-1] != N or (np.diff(starts) < 0).any():
        return run.violation('partition-starts', dict(starts=starts[:20], **desc))
    if core.poison_count(psort.reshape(-1)) or (wsort is not None and core.poison_count(wsort)):
        return run.violation('partition-unwritten-output', dict(poisoned_pos=core.poison_count(psort.reshape(-1)), **desc))
    run.count('poison_scans')
    o1, o2 = [c for c in range(3) if c != coord]
    t = psort[:, o1].astype(np.int64)
    # permutation: every tag exactly once, whole rows preserved
    if N and (np.sort(t) != tag).any():
        missing = np.setdiff1d(tag, t)[:5]
        return run.violation('partition-not-permutation', dict(missing_tags=missing, **desc))
    if N and not np.array_equal(psort, pos0[t - 1]):
        return run.violation('partition-row-torn', desc)
    if wsort is not None and not np.array_equal(wsort.astype(np.int64), t):
        i = int(np.nonzero(wsort.astype(np.int64) != t)[0][0])
        return run.violation('partition-weight-misaligned', dict(row=i, weight=float(wsort[i]), tag=int(t[i]), **desc))
    if wsort is not None and N and not np.array_equal(wsort, w0[t - 1]):
        i = int(np.nonzero(wsort != w0[t - 1])[0][0])
        return run.violation('partition-weight-value-changed', dict(row=i, weight=repr(wsort[i]), input_weight=repr(w0[t[i] - 1]), **desc))
    # membership
    if N:
        s_ref, near, qr = ref_stripe(psort[:, coord], npart, box)
        s_got = np.searchsorted(starts, np.arange(N), side='right') - 1
        # searchsorted with repeated starts: take last stripe whose start <= i and that is non-empty
        s_got = np.minimum(s_got, npart - 1)
        ok = s_got == s_ref
        amb = near & ((s_got == np.minimum(qr, npart - 1)) | (s_got == np.minimum(np.maximum(qr - 1, 0), npart - 1)))
        bad = ~(ok | amb)
        run.count('membership_checked', N)
        run.count('membership_ties', int((near).sum()))
        if bad.any():
            i = int(np.nonzero(bad)[0][0])
            return run.violation('partition-wrong-stripe', dict(row=i, x=float(psort[i, coord]), stripe_got=int(s_got[i]), stripe_expected=int(s_ref[i]), nbad=int(bad.sum()), **desc))
        if sort and N > 1:
            desc_at = np.nonzero(np.diff(psort[:, coord]) < 0)[0] + 1  # a descent is allowed only where a new stripe starts
            inside = desc_at[~np.isin(desc_at, starts)]
            if len(inside):
                return run.violation('partition-stripe-unsorted', dict(stripe=int(s_got[inside[0]]), row=int(inside[0]), **desc))
            run.count('sorted_stripes_checked', int(npart))
    return False


def check(run):
    from abacusnbody.analysis import tsc

    rng = run.rng(0)
    Ns = [0, 1, 2, 15, 16, 17, 1000, 100000]
    nps = [1, 2, 3, 7, 64, 1000]
    fams = ['uniform', 'dups', 'boundaries', 'ends']
    combos = [(np.float32, None), (np.float32, np.float32), (np.float64, np.float64), (np.float64, None), (np.float32, np.float64), (np.float64, np.float32)] + ([] if run.quick else [(np.float32, np.int64), (np.float64, np.int32)])
    ncalls = 800 if run.quick else 30000
    k = 0
    # systematic part: every N x thread-count for one configuration each, then random combos
    for N in Ns:
        for nthread in range(1, 17):
            dtype, wk = combos[k % 2]
            if one_call(run, tsc, rng, N, nps[k % len(nps)], k % 3, dtype, wk, bool(k % 2), nthread, fams[k % 4], [1.0, 123.0, 2000.0][k % 3]):
                if run.too_many():
                    return
            k += 1
    # stripe counts beyond the 16-bit and int16 ranges (real grids: ngrid 2048..8192 with narrow stripes, or tests with npartition > N)
    for npart in (32769, 40000, 65537, 70001):
        for dtype, wk, nthread in ((np.float32, np.float32, 16), (np.float64, None, 3)):
            if one_call(run, tsc, rng, 100000, npart, k % 3, dtype, wk, bool(k % 2), nthread, 'uniform', 2000.0):
                if run.too_many():
                    return
            k += 1
    # more stripes than any particle count in use (thread-count x stripe-count tables of tens of MB)
    for npart, nthread in ((262145, 16), (600000, 8), (2**22 + 1, 2)):
        if one_call(run, tsc, rng, 100000, npart, k % 3, np.float32, np.float32, bool(k % 2), nthread, 'uniform', 2000.0):
            if run.too_many():
                return
        k += 1
    # column-major positions (what np.array([x, y, z]).T hands over), sorted and unsorted, with and without weights
    for dtype, wk, sort, nthread in ((np.float32, None, True, 4), (np.float64, np.float64, True, 16), (np.float32, None, False, 16), (np.float64, np.float64, True, 1)):
        if one_call(run, tsc, rng, [1000, 100000][k % 2], [7, 64][k % 2], k % 3, dtype, wk, sort, nthread, fams[k % 4], 123.0, layout='fortran'):
            if run.too_many():
                return
        k += 1
    run.count('column_major_position_calls', 4)
    # prange write-set monitor on the interpreted body (decides every schedule from one execution): within one parallel loop no two
    # iterations may write the same row of any array -- outputs, per-thread tables, or scratch allocated inside the function
    from .. import hodrace

    for rep in range(12 if run.quick else 120):
        N = [300, 2000, 57, 1][rep % 4]
        npart, nthread = [(6, 4), (3, 16), (16, 3), (2, 2)][rep % 4]
        dtype = [np.float32, np.float64][rep % 2]
        if rep % 6 == 4:
            N, npart, nthread = 70001, 2, 4  # stripes of more than 2^15 particles (any size-dependent path of the sort pass)
        pos, tag = make_positions(rng, N, 100.0, npart, rep % 3, dtype, ['uniform', 'dups'][rep % 2])
        w = None if rep % 3 == 2 else tag.astype(dtype)
        f, rec, npp = hodrace.monitored(tsc.partition_parallel)
        rec.row_mode = True
        run.ev()
        try:
            f(pos, npart, 100.0, weights=w, coord=rep % 3, nthread=nthread, sort=bool(rep % 4 != 3))
        except Exception as e:
            run.note_inconclusive(f'write-set monitor could not run the interpreted body: {type(e).__name__}: {e}'[:200])
            break
        conf = rec.conflicts()
        run.count('write_set_rows_recorded', sum(len(r) for r in rec.regions))
        run.count('write_set_regions', len(rec.regions))
        run.nt(('write-set', rep))
        if conf:
            run.violation('partition-pass-shared-write', dict(N=N, npartition=npart, nthread=nthread, weights=w is not None, sort=bool(rep % 4 != 3), n_conflicting_rows=len(conf), example=conf[0]))
            break
    # stress: few, very large stripes sorted concurrently with weights (several stripes of > 2^15 particles in flight at once), repeated
    nstress = 40 if run.quick else 300
    for rep in range(nstress):
        dtype, wk = [(np.float64, np.float64), (np.float32, np.float32), (np.float64, np.float32), (np.float32, None), (np.float64, None)][rep % 5]
        # 600000 particles in 4-12 stripes: every stripe far above 2^15 particles, 8 or 16 threads sorting them at the same time
        if one_call(run, tsc, rng, 600000, [8, 4, 12][rep % 3], rep % 3, dtype, wk, True, [8, 16, 16, 8, 4][rep % 5 if rep % 7 else 4], 'uniform', 2000.0):
            break
    run.count('large_stripe_sort_stress_calls', nstress)
    # the same position / weight array objects partitioned again after being overwritten in place
    for rep in range(6 if run.quick else 60):
        N, npart, nthread = [(1000, 7, 4), (17, 3, 16), (100000, 64, 8)][rep % 3]
        dtype = [np.float32, np.float64][rep % 2]
        pos, tag = make_positions(rng, N, 123.0, npart, rep % 3, dtype, 'uniform')
        w = tag.astype(dtype)
        tsc.partition_parallel(pos, npart, 123.0, weights=w, coord=rep % 3, nthread=nthread, sort=bool(rep % 2))
        pos2, tag2 = make_positions(rng, N, 123.0, npart, rep % 3, dtype, 'dups')
        pos[:] = pos2[::-1]
        w[:] = w[::-1]
        run.ev()
        ps2, st2, ws2 = tsc.partition_parallel(pos, npart, 123.0, weights=w, coord=rep % 3, nthread=nthread, sort=bool(rep % 2))
        ps3, st3, ws3 = tsc.partition_parallel(pos.copy(), npart, 123.0, weights=w.copy(), coord=rep % 3, nthread=nthread, sort=bool(rep % 2))
        run.nt(('same-objects-again', N, npart, rep % 2))
        same_rows = np.array_equal(np.sort(ps2.view([('', ps2.dtype)] * 3).ravel()), np.sort(ps3.view([('', ps3.dtype)] * 3).ravel()))
        if not (np.array_equal(st2, st3) and same_rows and np.array_equal(np.sort(ws2), np.sort(ws3))):
            run.violation('partition-state-between-calls', dict(N=N, npartition=npart, nthread=nthread, dtype=np.dtype(dtype).str, starts_equal=bool(np.array_equal(st2, st3))))
    run.sample(dict(N=17, npartition=7, coord=1, dtype='<f4', weights='<f4', sort=True, nthread=16, family='boundaries', box=123.0))
    while k < ncalls:
        N = int(rng.choice(Ns[:-1] if rng.random() < 0.93 else Ns))
        npart = int(rng.choice(nps + [N + 3]))
        dtype, wk = combos[int(rng.integers(0, len(combos)))]
        if N > 2**24 - 2 and dtype == np.float32:
            continue
        nthread = int(rng.integers(1, 17))
        fam = fams[int(rng.integers(0, 4))]
        box = float(rng.choice([1.0, 123.0, 2000.0]))
        if one_call(run, tsc, rng, N, npart, int(rng.integers(0, 3)), dtype, wk, bool(rng.integers(0, 2)), nthread, fam, box, layout=(['plain', 'plain', 'strided', 'fortran' if not run.quick else 'plain'][k % 4] if ((dtype == np.float32 and wk in (None, np.float32)) or not run.quick) else 'plain')):
            if run.too_many():
                return
        k += 1


def replay(run, data):
    from abacusnbody.analysis import tsc

    w = data['witness']
    rng = run.rng(0)
    for rep in range(50):
        one_call(run, tsc, rng, w['N'], w['npartition'], w['coord'], np.dtype(w['dtype']).type, None if w['weights'] is None else np.dtype(w['weights']).type, w['sort'], w['nthread'], w['family'], w['box'])
    run.nt('r1')
    run.nt('r2')
