"""C20 — pipe_asdf emits count, width and the concatenated raw bytes per field.

Byte-level parser + expected bytes computed from the generator's arrays, against (a) the real
unpack_to_pipe writing into a recording pipe object and (b) the real command-line entry point
`python -m abacusnbody.data.pipe_asdf` in a subprocess (exit status, stderr, stdout bytes)."""

import io
import os
import shutil
import struct
import subprocess
import sys
import tempfile

import numpy as np

from ..asdfio import write_asdf

LEVEL = 'exploration'
RULE = (
    'invocations over 1-5 generated ASDF files x 1-6 fields in permuted/repeated order; dtypes i2,i4,i8,u8,f4,f8; shapes (N,), (N,3), (N,2,2), empty (0,), (0,3); none/zlib/blsc compression; nthread 1..16; every 10th invocation with multi-megabyte fields over files of very unequal size; '
    'a missing file at each position; a field missing from the first / last / some files. A case = one invocation whose whole output byte stream is parsed and compared. '
    'non-trivial = distinct (nfiles, field list, dtypes/shapes, compression, entry point) with >= 2 files or >= 2 fields'
)
RULE += (
    ' Added after seeded round 9: big-endian columns (>f4, >i8, >f8, >u2) over >= 2 files in every seventh invocation.'
)
ASSUMPTIONS = ['all files of one invocation store a given field with the same dtype (the format has a single width per field)', 'zlib-based stand-in for python-blosc for blsc inputs']

DTS = ['i2', 'i4', 'i8', 'u8', 'f4', 'f8', 'c8', 'c16', 'S5', 'u1']  # incl. types whose alignment differs from their size
SHAPES = [(), (3,), (2, 2)]


class RecordingPipe(io.BytesIO):
    def __init__(self):
        super().__init__()
        self.writes = []
        self.closed_called = False

    def isatty(self):
        return False

    def write(self, b):
        mv = memoryview(b)
        self.writes.append(mv.nbytes)
        return super().write(mv.tobytes() if not mv.contiguous else mv)

    def close(self):
        self.closed_called = True  # keep the buffer readable


def make_files(rng, d, nfiles, fields_spec, comp, tag, sizes=None, compressible=False):
    """fields_spec: name -> (dtype, tail shape).  Returns file names and arrays[file][field]."""
    fns, arrs = [], []
    for i in range(nfiles):
        data = {}
        for name, (dt, tail) in fields_spec.items():
            n = int(rng.choice([0, 1, 7, 300]))
            if sizes is not None:
                n = sizes[i % len(sizes)]
            if dt == 'S5':
                a = rng.integers(0, 100000, (n,) + tail).astype('S5')
            elif dt[0] == 'c':
                a = (rng.integers(-1000, 1000, (n,) + tail) + 1j * rng.integers(-1000, 1000, (n,) + tail)).astype(dt)
            elif dt == 'u1':
                a = rng.integers(0, 256, (n,) + tail).astype(dt)
            else:
                a = rng.integers(-1000, 1000, (n,) + tail).astype(dt) if dt[0] != 'u' else rng.integers(0, 1 << 40, (n,) + tail).astype(dt)
            if compressible and n > 1000:
                a[...] = a.reshape(-1)[0]  # a constant column: every compressed frame is tiny
            data[name] = a
        fn = os.path.join(d, f'{tag}_{i}.asdf')
        # blsc columns are stored as a sequence of frames: also with a small block size, so that even short columns consist of several
        # frames and several of them arrive in a single read of the file layer
        ckw = dict(compression_block_size=[1024, 4096, 1 << 22][(i + len(fields_spec)) % 3]) if comp == 'blsc' else None
        write_asdf(fn, dict(header=dict(x=1), data=data), comp, compression_kwargs=ckw)
        fns.append(fn)
        arrs.append(data)
    return fns, arrs


def expected_stream(arrs, fields):
    out = b''
    for f in fields:
        count = sum(int(np.prod(a[f].shape)) for a in arrs)
        width = arrs[-1][f].dtype.itemsize
        out += struct.pack('<q', count) + struct.pack('<i', width)
        for a in arrs:
            out += np.ascontiguousarray(a[f]).tobytes()
    return out


def parse(stream, nfields):
    pos = 0
    recs = []
    for _ in range(nfields):
        if pos + 12 > len(stream):
            return recs, 'truncated header'
        count, width = struct.unpack('<q', stream[pos : pos + 8])[0], struct.unpack('<i', stream[pos + 8 : pos + 12])[0]
        pos += 12
        nb = count * width
        if count < 0 or width <= 0 or pos + nb > len(stream):
            return recs, f'bad header count={count} width={width}'
        recs.append((count, width, stream[pos : pos + nb]))
        pos += nb
    if pos != len(stream):
        return recs, f'{len(stream) - pos} trailing bytes'
    return recs, None


def compare(run, got, arrs, fields, desc):
    exp = expected_stream(arrs, fields)
    run.count('bytes_compared', len(exp))
    if got == exp:
        return False
    recs, err = parse(got, len(fields))
    wit = dict(parse_error=err, got_len=len(got), expected_len=len(exp), **desc)
    for j, f in enumerate(fields):
        if j < len(recs):
            c, w, payload = recs[j]
            ec = sum(int(np.prod(a[f].shape)) for a in arrs)
            ew = arrs[-1][f].dtype.itemsize
            if (c, w) != (ec, ew):
                wit.update(field=f, header_got=[c, w], header_expected=[ec, ew])
                return run.violation('pipe-header', wit)
            ep = b''.join(np.ascontiguousarray(a[f]).tobytes() for a in arrs)
            if payload != ep:
                wit.update(field=f, first_bad_byte=next(i for i in range(min(len(payload), len(ep))) if payload[i] != ep[i]) if payload[: len(ep)] != ep[: len(payload)] else min(len(payload), len(ep)))
                return run.violation('pipe-payload', wit)
    return run.violation('pipe-stream', wit)


def check(run):
    import abacusnbody.data.pipe_asdf as PA

    rng = run.rng(0)
    d = tempfile.mkdtemp(prefix='verif_c20_')
    ninv, ncli = (150, 20) if run.quick else (3000, 200)
    env = dict(os.environ)
    try:
        for k in range(ninv):
            nfiles = int(rng.integers(1, 6))
            nf = int(rng.integers(1, 7))
            spec = {f'f{j}': (DTS[int(rng.integers(0, len(DTS)))], SHAPES[int(rng.integers(0, 3))]) for j in range(nf)}
            comp = [None, 'zlib', 'blsc'][k % 3]
            if k % 7 == 5:
                # columns stored in the other byte order (ASDF records the order per array): "raw array bytes" are the stored bytes
                nfiles = max(nfiles, 2)
                for j, n in enumerate(list(spec)[:2]):
                    spec[n] = (['>f4', '>i8', '>f8', '>u2'][(k // 7 + j) % 4], spec[n][1])
                run.count('invocations_with_big_endian_columns')
            # multi-megabyte fields whose files differ in size by orders of magnitude (a large compressed file followed by tiny ones, or the
            # reverse): whatever reads or decompresses them, the payloads must still come out in argument order
            big = k % 10 == 4
            sizes = None
            if big:
                nfiles = max(nfiles, 3)
                spec = {n: spec[n] for n in list(spec)[:2]}
                nf = len(spec)
                sizes = [[600000, 3, 50], [5, 600000, 2], [300000, 300000, 300000], [262144, 131072, 7], [1, 524288, 1048576]][(k // 10) % 5]  # incl. arrays whose byte size is an exact multiple of 2^20
                comp = ['zlib', 'blsc', None][(k // 10) % 3] if k % 20 == 4 else comp
                run.count('multi_megabyte_invocations')
            # (a third of the multi-megabyte cases hold constant columns: many small compressed frames per read chunk)
            fns, arrs = make_files(rng, d, nfiles, spec, comp, f'c{k}', sizes=sizes, compressible=bool(big and (k // 10) % 3 == 1))
            names = list(spec)
            if k % 6 == 3 and nfiles >= 1:
                # the same file may be named more than once: it is concatenated each time, in argument order
                j = int(rng.integers(0, nfiles))
                fns, arrs = fns + [fns[j]], arrs + [arrs[j]]
                if k % 12 == 3:
                    fns, arrs = [fns[j]] + fns, [arrs[j]] + arrs
                nfiles = len(fns)
            m = int(rng.integers(1, nf + 1))
            fields = [names[int(i)] for i in rng.permutation(nf)[:m]]
            if k % 7 == 0:
                fields = fields + [fields[0]]  # repeated field
            use_cli = k < ncli or (k % max(1, ninv // ncli) == 0 and not run.quick) or k % 40 == 24
            desc = dict(case=k, nfiles=nfiles, fields=fields, spec={n: [spec[n][0], list(spec[n][1])] for n in fields}, compression=comp, entry='cli' if use_cli else 'unpack_to_pipe')
            run.progress(desc)
            run.ev()
            if nfiles >= 2 or len(fields) >= 2:
                run.nt((nfiles, tuple(fields), tuple((spec[n][0], spec[n][1]) for n in fields), comp, desc['entry']))
            if k < 3:
                run.sample(desc)
            if use_cli:
                cmd = [sys.executable, '-m', 'abacusnbody.data.pipe_asdf'] + fns
                for f in fields:
                    cmd += ['-f', f]
                if k % 3 == 1:
                    cmd += ['--nthread', str([1, 3, 8][(k // 3) % 3])]
                p = subprocess.run(cmd, capture_output=True, env=env, timeout=120)
                run.count('cli_invocations')
                if p.returncode != 0:
                    run.violation('pipe-cli-fails', dict(returncode=p.returncode, stderr=p.stderr.decode(errors='replace')[-300:], **desc))
                else:
                    compare(run, p.stdout, arrs, fields, desc)
            else:
                pipe = RecordingPipe()
                try:
                    import pathlib

                    a_fns = [pathlib.Path(f) for f in fns] if k % 4 == 1 else (tuple(fns) if k % 4 == 2 else fns)
                    a_fields = tuple(fields) if k % 3 == 1 else fields
                    PA.unpack_to_pipe(a_fns, a_fields, pipe=pipe, verbose=False, **({} if k % 2 else dict(nthread=[1, 2, 8, 16][(k // 2) % 4])))
                except Exception as e:
                    run.violation('pipe-raises-' + type(e).__name__, dict(error=str(e)[:200], **desc))
                else:
                    if not pipe.closed_called:
                        run.violation('pipe-not-closed', desc)
                    compare(run, pipe.getvalue(), arrs, fields, desc)
            # the Python entry point's data_key: columns live under another tree name; a 'data' tree with same-named but different columns sits beside it
            if k % 9 == 7:
                import asdf as _asdf

                alt = []
                for j, a in enumerate(arrs):
                    fn2 = os.path.join(d, f'alt{k}_{j}.asdf')
                    decoy = {n: np.roll(np.asarray(v)[::-1], 1, axis=0).copy() for n, v in a.items()}  # same names, other contents
                    _asdf.AsdfFile(dict(hdr=dict(x=1), header=dict(x=2), halos={n: np.ascontiguousarray(v) for n, v in a.items()}, data=decoy)).write_to(fn2)
                    alt.append(fn2)
                pipe = RecordingPipe()
                run.ev()
                run.count('data_key_invocations')
                try:
                    PA.unpack_to_pipe(alt, fields, data_key='halos', header_key='hdr', pipe=pipe, verbose=False)
                except Exception as e:
                    run.violation('pipe-raises-' + type(e).__name__, dict(error=str(e)[:200], data_key='halos', bytes_already_written=len(pipe.getvalue()), **desc))
                else:
                    compare(run, pipe.getvalue(), arrs, fields, dict(desc, data_key='halos'))
            # the same paths piped again after the files were rewritten with other row counts / dtypes (nothing may be remembered per path)
            if k % 9 == 1 and not big:
                spec2 = {n: (DTS[((DTS.index(spec[n][0]) if spec[n][0] in DTS else 3) + 1 + j) % len(DTS)], spec[n][1]) for j, n in enumerate(spec)}
                fns2, arrs2 = make_files(rng, d, len(fns), spec2, comp, f'c{k}')  # same tag -> same file names
                if fns2 == list(fns):
                    pipe = RecordingPipe()
                    run.ev()
                    run.count('rewritten_path_invocations')
                    try:
                        PA.unpack_to_pipe(fns2, fields, pipe=pipe, verbose=False)
                    except Exception as e:
                        run.violation('pipe-raises-' + type(e).__name__, dict(error=str(e)[:200], second_call_after_rewrite=True, **desc))
                    else:
                        compare(run, pipe.getvalue(), arrs2, fields, dict(desc, second_call_after_rewrite=True))
            # verbose mode reports to stderr only: the pipe carries the same bytes
            if k % 9 == 2:
                import contextlib

                pipe = RecordingPipe()
                errbuf = io.StringIO()
                run.ev()
                try:
                    with contextlib.redirect_stderr(errbuf), contextlib.redirect_stdout(io.StringIO()):
                        PA.unpack_to_pipe(fns, fields, pipe=pipe, verbose=True)
                except Exception as e:
                    run.violation('pipe-raises-' + type(e).__name__, dict(error=str(e)[:200], verbose=True, **desc))
                else:
                    compare(run, pipe.getvalue(), arrs, fields, dict(desc, verbose=True))
                run.count('verbose_invocations')
            # a terminal as output is refused before anything is written
            if k % 9 == 5:
                tty = RecordingPipe()
                tty.isatty = lambda: True
                run.ev()
                try:
                    PA.unpack_to_pipe(fns, fields, pipe=tty, verbose=False)
                    run.count('terminal_output_accepted')  # informational: the statement names only missing files / fields as errors
                except RuntimeError:
                    run.count('terminal_output_refused')
                    if tty.getvalue():
                        run.violation('pipe-bytes-before-error', dict(kind='terminal refused', nbytes=len(tty.getvalue()), **desc))
            # error paths: nothing may be written before the error
            if k % 5 == 0:
                pos = int(rng.integers(0, nfiles + 1))
                bad = fns[:pos] + [os.path.join(d, 'does_not_exist.asdf')] + fns[pos:]
                pipe = RecordingPipe()
                run.ev()
                try:
                    PA.unpack_to_pipe(bad, fields, pipe=pipe, verbose=False)
                    run.violation('pipe-missing-file-not-reported', dict(position=pos, **desc))
                except FileNotFoundError:
                    run.count('missing_file_errors_observed')
                except Exception as e:
                    run.violation('pipe-missing-file-wrong-error', dict(error=f'{type(e).__name__}: {e}'[:200], **desc))
                if pipe.getvalue():
                    run.violation('pipe-bytes-before-error', dict(kind='missing file', nbytes=len(pipe.getvalue()), position=pos, **desc))
            if k % 5 == 1:
                # a field absent from one file (first / last / middle)
                which = [0, nfiles - 1, nfiles // 2][k % 3]
                spec2 = {n: v for n, v in spec.items() if n != fields[-1]} or {'zz': ('i4', ())}
                fn2, _ = make_files(rng, d, 1, spec2, comp, f'm{k}')
                bad = list(fns)
                bad[which] = fn2[0]
                for entry in ('func', 'cli') if k < ncli else ('func',):
                    run.ev()
                    if entry == 'func':
                        pipe = RecordingPipe()
                        try:
                            PA.unpack_to_pipe(bad, fields, pipe=pipe, verbose=False)
                            run.violation('pipe-missing-field-not-reported', dict(which_file=which, **desc))
                        except ValueError:
                            run.count('missing_field_errors_observed')
                        except Exception as e:
                            run.violation('pipe-missing-field-wrong-error', dict(error=f'{type(e).__name__}: {e}'[:200], **desc))
                        if pipe.getvalue():
                            run.violation('pipe-bytes-before-error', dict(kind='missing field', nbytes=len(pipe.getvalue()), which_file=which, **desc))
                    else:
                        cmd = [sys.executable, '-m', 'abacusnbody.data.pipe_asdf'] + bad
                        for f in fields:
                            cmd += ['-f', f]
                        p = subprocess.run(cmd, capture_output=True, env=env, timeout=120)
                        if p.returncode == 0:
                            run.violation('pipe-missing-field-not-reported', dict(entry='cli', which_file=which, **desc))
                        if p.stdout:
                            run.violation('pipe-bytes-before-error', dict(kind='missing field (cli)', nbytes=len(p.stdout), **desc))
                        run.count('cli_invocations')
            for fn in os.listdir(d):
                os.unlink(os.path.join(d, fn))
            if run.too_many():
                return
    finally:
        shutil.rmtree(d, ignore_errors=True)


def replay(run, data):
    check(run)
