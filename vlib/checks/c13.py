"""C13 — the power-spectrum estimate has the symmetries of the estimator.

Metamorphic differential monitor on the real calc_power: particle permutation, whole-cell periodic
translation (exact on a 1/8-cell dyadic lattice), thread count, cross == auto; and N_mode / k, mu
ranges / table shape identical across different particle sets."""

import warnings

import numpy as np

from .. import core

LEVEL = 'exploration'
RULE = (
    'base cases = (TSC|CIC, compensated, interlaced, binning (kbins int|array, logk, mubins, poles), nmesh in {8,9,12,15,16,24,32,48}, nthread, field dtype, particle set) '
    'run through the real calc_power; each followed by its transformations (permutation, translation by whole cells along each axis with wrap, other thread counts, pos2=pos, '
    'a different particle set for the particle-independent columns). non-trivial = distinct (base configuration, transformation) pairs with >= 2 populated k bins'
)
RULE += (
    ' Added after seeded round 9: thin-slab particle sets (all within two cells of x=0) and catalogues of 16-250 weighted particles: thread counts 1/2/4/7/16 and x translations.'
)
ASSUMPTIONS = [
    'power/poles compared at 2e-4 and k_avg at 1e-3 of the column maximum (float32 accumulation over up to 1e5 modes per bin; observed noise: power <= 2e-6, k_avg <= 2.2e-5); N_mode, ranges, shapes compared exactly',
    'only the symmetries listed in the statement are asserted',
]

FLOATCOLS = ('power', 'poles', 'k_avg')
EXACTCOLS = ('N_mode', 'N_mode_poles', 'k_min', 'k_max', 'k_mid', 'mu_min', 'mu_max', 'mu_mid')


def lattice(rng, N, nmesh, box, clustered=True):
    """positions on a 1/8-cell lattice (exact in float32 for power-of-two-friendly boxes)."""
    h = box / nmesh
    if clustered:
        c = rng.integers(0, nmesh * 8, (max(1, N // 20), 3))
        idx = (c[rng.integers(0, len(c), N)] + rng.integers(-12, 13, (N, 3))) % (nmesh * 8)
    else:
        idx = rng.integers(0, nmesh * 8, (N, 3))
    return (idx * (h / 8)).astype(np.float32), idx


def run_power(ps, pos, box, conf, nthread=None, pos2=None, w=None, w2=None):
    kw = dict(conf['kw'])
    with warnings.catch_warnings():
        warnings.simplefilter('ignore')
        return ps.calc_power(pos.copy(), box, nmesh=conf['nmesh'], paste=conf['paste'], compensated=conf['compensated'], interlaced=conf['interlaced'], nthread=nthread or conf['nthread'], dtype=conf['dtype'], pos2=None if pos2 is None else pos2.copy(), w=None if w is None else w.copy(), w2=None if w2 is None else w2.copy(), **kw)


class Raised:
    def __init__(self, e):
        self.e = e


def safe_power(*a, **k):
    try:
        return run_power(*a, **k)
    except Exception as e:  # calc_power failing on a valid call is itself a broken symmetry
        return Raised(e)


def compare_tables(run, A, B, desc, what, floats=True):
    if isinstance(B, Raised) or isinstance(A, Raised):
        e = (B if isinstance(B, Raised) else A).e
        return run.violation('power-run-raises-' + what, dict(error=f'{type(e).__name__}: {e}'[:200], transformation=what, **desc))
    if A.colnames != B.colnames or len(A) != len(B):
        return run.violation('power-table-shape', dict(transformation=what, cols_a=A.colnames, cols_b=B.colnames, **desc))
    for c in A.colnames:
        a, b = np.asarray(A[c]), np.asarray(B[c])
        if a.shape != b.shape:
            return run.violation('power-table-shape', dict(transformation=what, column=c, **desc))
        if c in EXACTCOLS:
            if not np.array_equal(a, b):
                return run.violation('power-' + what + '-exact-column', dict(column=c, a=a.ravel()[:6], b=b.ravel()[:6], **desc))
        elif floats and c in FLOATCOLS:
            scale = max(np.nanmax(np.abs(a)), np.nanmax(np.abs(b)), 1e-30)
            d = np.nanmax(np.abs(a.astype(np.float64) - b.astype(np.float64))) / scale
            run.setmax('max_rel_diff_x1e9_' + what, int(d * 1e9))
            if not (d <= (1e-3 if c == 'k_avg' else 2e-4)):
                i = np.unravel_index(int(np.nanargmax(np.abs(a.astype(np.float64) - b.astype(np.float64)))), a.shape)
                return run.violation('power-not-invariant-' + what, dict(column=c, rel_diff=float(d), a=float(a[i]), b=float(b[i]), index=[int(x) for x in i], **desc))
    run.count('table_comparisons')
    return False


def make_conf(rng, k, quick):
    nmesh = [8, 12, 16, 24, 32, 48, 9, 15][k % 8]
    paste = ['TSC', 'CIC'][(k // 2) % 2]
    compensated = bool((k // 4) % 2)
    interlaced = bool(k % 2)
    binning = k % 5
    kw = {}
    if binning == 0:
        kw = dict(kbins=None)
    elif binning == 1:
        kw = dict(kbins=6, mubins=3)
    elif binning == 2:
        kw = dict(kbins=5, logk=True, poles=[0, 2, 4])
    elif binning == 3:
        kw = dict(kbins='array', mubins=2, poles=[0, 2])
    else:
        kw = dict(kbins=7, poles=[0, 2, 4], mubins=4)
    nthread = [1, 2, 4, 16][(k // 3) % 4]
    dtype = np.float64 if (k % 7 == 3 and not interlaced) else np.float32
    return dict(nmesh=nmesh, paste=paste, compensated=compensated, interlaced=interlaced, kw=kw, nthread=nthread, dtype=dtype, binning=binning)


def check(run):
    from abacusnbody.analysis import power_spectrum as ps

    rng = run.rng(0)
    nbase = 40 if run.quick else 600
    for k in range(nbase):
        conf = make_conf(rng, k, run.quick)
        nmesh = conf['nmesh']
        box = [64.0, 1.0, 2048.0][k % 3] * (nmesh / 8 if nmesh in (9, 15) else 1)  # keep cell size dyadic for odd meshes too
        if nmesh in (9, 15):
            box = float(nmesh) * [1.0, 8.0][k % 2]
        elif nmesh in (12, 24, 48):
            box = float(nmesh) * [0.5, 4.0][k % 2]
        N = int(rng.choice([300, 3000, 20000])) if not run.quick else int(rng.choice([300, 3000]))
        if k % 20 == 7 or (not run.quick and k % 20 == 13):
            N = [66000, 132000, 1050000][(k // 20) % (2 if run.quick else 3)]  # particle counts beyond round internal thresholds
        pos, idx = lattice(rng, N, nmesh, box, clustered=bool(k % 3))
        if k % 4 == 2:
            order = np.argsort(idx[:, k % 3], kind='stable')  # array order correlated with position, as in files written slab by slab
            pos, idx = pos[order], idx[order]
        if conf['kw'].get('kbins') == 'array':
            kN = np.pi * nmesh / box
            conf['kw']['kbins'] = np.array([0.0, 0.21, 0.5, 0.77, 0.93]) * kN
        desc = dict(nmesh=nmesh, box=box, N=N, paste=conf['paste'], compensated=conf['compensated'], interlaced=conf['interlaced'], binning=conf['binning'], nthread=conf['nthread'], dtype=np.dtype(conf['dtype']).str)
        run.progress(desc)
        run.ev()
        W = (rng.integers(1, 5, N).astype(np.float32) if (k % 3 == 1 or N > 60000) else None)  # integer weights keep the painting exact on the lattice
        desc['weighted'] = W is not None
        R0 = safe_power(ps, pos, box, conf, w=W)
        if isinstance(R0, Raised):
            run.violation('power-run-raises', dict(error=f'{type(R0.e).__name__}: {R0.e}'[:200], **desc))  # every configuration drawn here is a documented one
            continue
        populated = int((np.asarray(R0['N_mode']).reshape(len(R0), -1).sum(axis=1) > 0).sum())
        if k < 3:
            run.sample(dict(desc, first_positions=pos[:2].tolist(), power_head=np.asarray(R0['power']).ravel()[:3].tolist(), N_mode_head=np.asarray(R0['N_mode']).ravel()[:3].tolist()))
        if not np.isfinite(np.asarray(R0['power'])[np.asarray(R0['N_mode']) > 0]).all():
            run.violation('power-not-finite', desc)
            continue

        def nt(what):
            if populated >= 2:
                run.nt((k, what))

        # 1. permutation
        perm = rng.permutation(N)
        run.ev()
        if compare_tables(run, R0, safe_power(ps, pos[perm], box, conf, w=None if W is None else W[perm]), desc, 'permutation'):
            continue
        nt('permutation')
        # 2. whole-cell translations with periodic wrap, one per axis and a combined one
        shifts = [(int(rng.integers(1, nmesh)), 0, 0), (0, int(rng.integers(1, nmesh)), 0), (0, 0, int(rng.integers(1, nmesh))), tuple(int(x) for x in rng.integers(-nmesh, nmesh, 3))]
        if run.quick:
            shifts = [shifts[k % 3], shifts[3]]
        bad = False
        for sh in shifts:
            idx2 = (idx + np.array(sh) * 8) % (nmesh * 8)
            pos2 = (idx2 * (box / nmesh / 8)).astype(np.float32)
            run.ev()
            if compare_tables(run, R0, safe_power(ps, pos2, box, conf, w=W), dict(desc, shift_cells=list(sh)), 'translation'):
                bad = True
                break
            nt(('translation', sh))
        if bad:
            continue
        # translation that leaves the domain and relies on calc_power's own wrap (TSC path wraps in place)
        if conf['paste'] == 'TSC':
            pos3 = (pos.astype(np.float64) + np.array([box, 0, -box])).astype(np.float32)
            if np.array_equal((pos3.astype(np.float64) - np.array([box, 0, -box])).astype(np.float32), pos):
                run.ev()
                if compare_tables(run, R0, safe_power(ps, pos3, box, conf, w=W), dict(desc, shift='(+box,0,-box) unwrapped'), 'translation'):
                    continue
                nt('translation-unwrapped')
        # 3. thread counts
        for ntc in ([1, 16] if run.quick else [1, 2, 3, 7, 16]):
            if ntc == conf['nthread']:
                continue
            run.ev()
            if compare_tables(run, R0, safe_power(ps, pos, box, conf, nthread=ntc, w=W), dict(desc, other_nthread=ntc), 'nthread'):
                bad = True
                break
            nt(('nthread', ntc))
        if bad:
            continue
        # 4. cross with itself equals auto
        run.ev()
        if compare_tables(run, R0, safe_power(ps, pos, box, conf, pos2=pos, w=W, w2=W), desc, 'cross-equals-auto'):
            continue
        nt('cross')
        # 4b. the very same array object passed as both fields, and the caller's positions afterwards
        p_same = pos.copy()
        run.ev()
        with warnings.catch_warnings():
            warnings.simplefilter('ignore')
            kw = dict(conf['kw'])
            try:
                Rs = ps.calc_power(p_same, box, nmesh=conf['nmesh'], paste=conf['paste'], compensated=conf['compensated'], interlaced=conf['interlaced'], nthread=conf['nthread'], dtype=conf['dtype'], pos2=p_same, w=None if W is None else W.copy(), w2=None if W is None else W.copy(), **kw)
            except Exception as e:
                Rs = Raised(e)
        if compare_tables(run, R0, Rs, dict(desc, pos2='same array object'), 'cross-equals-auto'):
            continue
        moved = np.abs(((p_same.astype(np.float64) - pos.astype(np.float64)) + box / 2) % box - box / 2).max() if len(pos) else 0.0
        if moved > 1e-6 * box:
            run.violation('power-displaces-callers-positions', dict(max_displacement=float(moved), cell=box / nmesh, **desc))
            continue
        nt('cross-same-object')
        # 5. particle-independent columns
        other, _ = lattice(rng, max(10, N // 3), nmesh, box, clustered=False)
        run.ev()
        if compare_tables(run, R0, safe_power(ps, other, box, conf), desc, 'other-particles', floats=False):
            continue
        nt('other-particles')
        if run.too_many():
            return
    # the mode counts of a binning depend on the mesh and that binning only -- not on which other binnings were asked for before.
    # The same binning (edges given in units of the Nyquist wavenumber) is requested (a) as the first request on a box of its own
    # and (b) on another box after a different binning with the same number of edges and the same end points: equal N_mode.
    for t, (nmesh, paste) in enumerate([(12, 'TSC'), (16, 'CIC'), (9, 'TSC')]):
        E = [np.array([0.0, 0.21, 0.5, 0.77, 0.93]), np.array([0.0, 0.33, 0.41, 0.62, 0.93])]
        M = [4, np.array([0.0, 0.1, 0.35, 0.8, 1.0])]
        res = {}
        for label, box, order in (('first-request', float(nmesh) * (2.0 + t), (1,)), ('after-another-binning', float(nmesh) * (4.0 + t), (0, 1))):
            kN = np.pi * nmesh / box
            pos, idx = lattice(rng, 3000, nmesh, box, clustered=True)
            for j2 in order:
                conf = dict(nmesh=nmesh, paste=paste, compensated=True, interlaced=bool(t % 2), kw=dict(kbins=E[j2] * kN, mubins=M[j2], poles=[0, 2]), nthread=4, dtype=np.float32)
                run.ev()
                res[label] = safe_power(ps, pos, box, conf)
        desc = dict(nmesh=nmesh, paste=paste, family='same binning (in mesh units) as a first request vs after another binning with equal edge count and end points')
        A, B = res['first-request'], res['after-another-binning']
        if isinstance(A, Raised) or isinstance(B, Raised):
            compare_tables(run, A, B, desc, 'request-history')
            continue
        run.nt(('history', nmesh, paste))
        for c in ('N_mode', 'N_mode_poles', 'mu_min', 'mu_max'):
            if c in A.colnames and not np.array_equal(np.asarray(A[c]), np.asarray(B[c])):
                run.violation('power-request-history-exact-column', dict(column=c, first_request=np.asarray(A[c]).ravel()[:8], after_another_binning=np.asarray(B[c]).ravel()[:8], **desc))
                break
    # a mesh with more than 2^24 modes in a single bin: N_mode stays the exact count n^3 - 1 for one thread and for many
    nmesh, box = 288, 288.0
    pos, idx = lattice(rng, 2000, 16, box, clustered=False)
    kN = np.pi * nmesh / box
    tabs = {}
    for ntc in (1, 16):
        conf = dict(nmesh=nmesh, paste='CIC', compensated=False, interlaced=False, kw=dict(kbins=np.array([0.5 * 2 * np.pi / box, 2.0 * kN]), mubins=1, poles=[0]), nthread=ntc, dtype=np.float32)
        run.ev()
        tabs[ntc] = safe_power(ps, pos, box, conf)
    desc = dict(nmesh=nmesh, box=box, N=2000, paste='CIC', family='one (k, mu) bin holding every mode but k=0')
    # (only the exact columns: float32 sums over 2.4e7 modes in one bin carry percent-level accumulation error that depends on how
    # many partial sums there are -- rounding, not a broken symmetry)
    if not compare_tables(run, tabs[1], tabs[16], dict(desc, other_nthread=16), 'nthread', floats=False):
        run.nt(('big-bin', nmesh))
        nm = int(np.asarray(tabs[1]['N_mode']).sum())
        if nm != nmesh**3 - 1:
            run.violation('power-nthread-exact-column', dict(column='N_mode', got=nm, expected=nmesh**3 - 1, **desc))
    del tabs
    # particle counts just past internal batch / threshold sizes (2^16, 2^20), not multiples of them, for both mass-assignment
    # schemes with interlacing and weights: permutation and thread-count invariance
    sizes = [(2**20 + 300001, 'CIC'), (2**16 + 1, 'CIC'), (2**20 + 300001, 'TSC')] if run.quick else [(2**20 + 300001, 'CIC'), (2**16 + 1, 'CIC'), (2**20 + 300001, 'TSC'), (2**21 + 17, 'CIC'), (3 * 2**20 - 1, 'TSC'), (2**20, 'CIC'), (2**20 + 1, 'CIC')]
    for N, paste in sizes:
        conf = dict(nmesh=16, paste=paste, compensated=True, interlaced=True, kw=dict(kbins=5, poles=[0, 2], mubins=2), nthread=4, dtype=np.float32, binning='threshold-sizes')
        box = 64.0
        pos, idx = lattice(rng, N, 16, box, clustered=False)
        # array order correlated with space and weight (as in a file written slab by slab): whatever a batch boundary does to
        # "the particles at certain indices" then shows as structure, which a random order would average away
        order = np.argsort(idx[:, 0], kind='stable')
        pos, idx = pos[order], idx[order]
        W = (1 + (np.arange(N) * 4) // N).astype(np.float32)
        desc = dict(nmesh=16, box=box, N=N, paste=paste, compensated=True, interlaced=True, weighted=True, nthread=4, family='threshold sizes, index order = x order')
        run.progress(desc)
        run.ev()
        R0 = safe_power(ps, pos, box, conf, w=W)
        perm = rng.permutation(N)
        run.ev()
        if not compare_tables(run, R0, safe_power(ps, pos[perm], box, conf, w=W[perm]), desc, 'permutation'):
            run.nt(('threshold', N, paste, 'permutation'))
        run.ev()
        if not compare_tables(run, R0, safe_power(ps, pos, box, conf, nthread=16, w=W), dict(desc, other_nthread=16), 'nthread'):
            run.nt(('threshold', N, paste, 'nthread'))

    # particle sets of unusual shape: a thin slab (all particles within two cells of x = 0, or of another plane after a translation),
    # and catalogues of a few dozen weighted particles (fewer than a handful per thread): thread-count and translation invariance
    for j, (nmesh, N, paste, interlaced) in enumerate([(16, 4000, 'TSC', False), (32, 4000, 'TSC', True), (16, 16, 'TSC', False), (16, 40, 'TSC', False), (8, 100, 'TSC', False), (16, 200, 'CIC', False), (24, 250, 'TSC', False), (16, 20, 'TSC', True)]):
        box = float(nmesh) * 4.0
        conf = dict(nmesh=nmesh, paste=paste, compensated=bool(j % 2), interlaced=interlaced, kw=dict(kbins=4, mubins=2, poles=[0, 2]), nthread=1, dtype=np.float32, binning='unusual-shapes')
        pos, idx = lattice(rng, N, nmesh, box, clustered=False)
        slab = N >= 1000
        if slab:
            idx[:, 0] = idx[:, 0] % 16  # the first two cells along x
        pos = (idx * (box / nmesh / 8)).astype(np.float32)
        W = rng.integers(1, 9, N).astype(np.float32)
        desc = dict(nmesh=nmesh, box=box, N=N, paste=paste, compensated=conf['compensated'], interlaced=interlaced, weighted=True, nthread=1, family='thin slab at x=0' if slab else 'a few dozen weighted particles')
        run.progress(desc)
        run.ev()
        R0 = safe_power(ps, pos, box, conf, w=W)
        if isinstance(R0, Raised):
            run.violation('power-run-raises', dict(error=f'{type(R0.e).__name__}: {R0.e}'[:200], **desc))
            continue
        for ntc in (2, 4, 16, 7):
            run.ev()
            if compare_tables(run, R0, safe_power(ps, pos, box, conf, nthread=ntc, w=W), dict(desc, other_nthread=ntc), 'nthread'):
                break
            run.nt(('shape', j, 'nthread', ntc))
        for shx in (nmesh // 2, 5, nmesh - 1):
            idx2 = (idx + np.array([shx, 0, 0]) * 8) % (nmesh * 8)
            pos2 = (idx2 * (box / nmesh / 8)).astype(np.float32)
            run.ev()
            if compare_tables(run, R0, safe_power(ps, pos2, box, conf, nthread=[4, 16, 2][shx % 3], w=W), dict(desc, shift_cells=[shx, 0, 0], other_nthread=[4, 16, 2][shx % 3]), 'translation'):
                break
            run.nt(('shape', j, 'translation', shx))
        run.count('unusual_shape_particle_sets')


def replay(run, data):
    check(run)
