"""C14 — blosc block decompression is independent of how the stream is chunked.

Driver: the real BloscCompressor.compress produces a length-prefixed frame stream; the real
BloscCompressor.decompress is fed harness-chosen chunk sequences.  Oracle: original bytes and
length; a strict codec double (shims/blosc) turns every mis-framed call into an exception;
canary red zones around `out`; sys.monitoring line coverage of the reassembly loop."""

import inspect
import itertools
import sys

import numpy as np

from .. import core

LEVEL = 'exploration'
RULE = (
    'streams from the real compress() (1-6 frames; payload sizes 0,1,itemsize,block,block+-1,multi-block; itemsize 1..16; '
    'compression_block_size itemsize..4 MiB); chunkings: every single cut, every pair of cuts, every constant chunk size, '
    'empty chunks inserted, random compositions biased to length-prefix bytes, and all cut subsets over prefix-adjacent positions of short streams. '
    'A case = (stream, chunking). non-trivial = distinct (stream id, parser-state transition class) pairs where the class is the set of '
    '(position of a chunk end relative to the frame layout: inside prefix k=1..3 / after prefix / inside frame / frame end) it contains'
)
RULE += (
    ' Added after seeded round 9: a reader that recycles one buffer for all chunks; destinations that are typed (2/4/8-byte items) and two-dimensional memoryviews.'
)
ASSUMPTIONS = [
    'the codec is a zlib-based stand-in for python-blosc (not installable offline); only the repository framing code is under test',
    'compression_block_size >= itemsize (documented domain)',
]

G = 64
CAN = 0xC3


_NSTREAM = [0]
_LASTKW = [{}]


def make_stream(comp, payload, itemsize, cbs):
    dt = {1: np.uint8, 2: np.uint16, 4: np.uint32, 8: np.uint64, 16: np.complex128}[itemsize]
    data = memoryview(np.frombuffer(payload, dtype=dt))
    assert data.itemsize == itemsize
    # the writer's documented options (shuffle filter, explicit type size) change the frames' contents, never their framing
    k = _NSTREAM[0]
    _NSTREAM[0] += 1
    kw = [{}, dict(shuffle='bitshuffle'), dict(shuffle=None), dict(typesize=1), dict(typesize=4, shuffle='shuffle'), dict(clevel=5), dict(typesize=8)][k % 7]
    _LASTKW[0] = kw
    return list(comp.compress(data, compression_block_size=cbs, **kw))


def layout_classes(frames, cuts):
    """Classify each cut position relative to the frame layout (harness-side, from the stream)."""
    bounds = []
    pos = 0
    for f in frames:
        bounds.append((pos, pos + 4, pos + len(f)))
        pos += len(f)
    cls = set()
    for c in cuts:
        for a, b, e in bounds:
            if a < c <= e:
                if c < b:
                    cls.add(f'in_prefix_{c - a}')
                elif c == b:
                    cls.add('after_prefix')
                elif c < e:
                    cls.add('in_frame')
                else:
                    cls.add('frame_end')
                break
    return cls


def split(stream, cuts):
    cuts = [0] + list(cuts) + [len(stream)]
    return [stream[cuts[i] : cuts[i + 1]] for i in range(len(cuts) - 1)]


class Driver:
    def __init__(self, run, comp):
        self.run = run
        self.comp = comp
        self.ncalls = 0

    def decode(self, stream, chunks, payload, sid, desc):
        n = len(payload)
        buf = np.full(n + 2 * G, CAN, dtype=np.uint8)
        out = buf[G : G + n].data
        self.ncalls += 1
        self.run.ev()
        isz = desc.get('itemsize', 1)
        if isz in (2, 4, 8) and n and n % isz == 0 and self.ncalls % 4 == 0:
            # the destination is the caller's array: items of the stored width, one- or two-dimensional
            typed = buf[G : G + n].view(f'u{isz}')
            if self.ncalls % 8 == 0 and (n // isz) % 3 == 0:
                typed = typed.reshape(-1, 3)
            out = typed.data
            self.run.count('decodes_into_a_typed_destination')
        if self.ncalls % 5 == 2 and len(chunks) > 1:
            # a reader that recycles one buffer for all its chunks (readinto style): a chunk's bytes are only valid until the next one is asked for
            src = [bytes(c) for c in chunks]
            scratch = bytearray(max(len(c) for c in src) or 1)

            def recycled():
                for c in src:
                    scratch[: len(c)] = c
                    yield memoryview(scratch)[: len(c)]
                    scratch[:] = b'\xa5' * len(scratch)

            it = recycled()
            self.run.count('decodes_from_a_recycled_read_buffer')
        else:
            it = iter(chunks)
        try:
            ret = self.comp.decompress(it, out)
        except Exception as e:
            return self.run.violation('chunking-' + type(e).__name__, dict(stream=sid, error=f'{type(e).__name__}: {e}'[:300], chunk_lengths=[len(c) for c in chunks][:60], **desc))
        got = bytes(buf[G : G + n])
        if ret != n:
            return self.run.violation('chunking-wrong-length', dict(stream=sid, returned=int(ret), expected=n, chunk_lengths=[len(c) for c in chunks][:60], **desc))
        if got != payload:
            bad = next(i for i in range(n) if got[i] != payload[i])
            return self.run.violation('chunking-wrong-bytes', dict(stream=sid, first_bad_byte=bad, chunk_lengths=[len(c) for c in chunks][:60], **desc))
        if not ((buf[:G] == CAN).all() and (buf[G + n :] == CAN).all()):
            return self.run.violation('chunking-canary', dict(stream=sid, chunk_lengths=[len(c) for c in chunks][:60], **desc))
        return False


def check(run):
    from abacusnbody.data.asdf import BloscCompressor
    import blosc

    if not hasattr(blosc, 'BloscShimError'):
        run.assumptions.append('real python-blosc in use')
    comp = BloscCompressor()
    drv = Driver(run, comp)
    rng = run.rng(0)

    # --- line coverage of the real decompress via sys.monitoring
    code = BloscCompressor.decompress.__code__
    lines_hit = set()
    mon = sys.monitoring
    TOOL = 3
    try:
        mon.use_tool_id(TOOL, 'verif_c14')
        mon.set_local_events(TOOL, code, mon.events.LINE)

        def on_line(c, line):
            lines_hit.add(line)

        mon.register_callback(TOOL, mon.events.LINE, on_line)
        monitoring = True
    except Exception:
        monitoring = False

    # --- streams
    specs = []
    for itemsize in (1, 2, 4, 8, 16):
        for cbs in (itemsize, 64, 4096, 1 << 22) + ((itemsize + 1, 3 * itemsize - 1, 100, 1000) if itemsize > 1 else (3, 7)):  # incl. sizes that are not a multiple of the item size
            nel_blk = max(1, cbs // itemsize)
            for nel in sorted({0, 1, 2, nel_blk - 1, nel_blk, nel_blk + 1, 3 * nel_blk, 5 * nel_blk + 1}):
                if nel < 0:
                    continue
                nbytes = nel * itemsize
                nframes = -(-nel // nel_blk)
                if nbytes > 200000 or nframes > 6:
                    continue
                specs.append((itemsize, cbs, nel))
    if run.quick:
        specs = specs[:: max(1, len(specs) // 40)]
    streams = []
    for sid, (itemsize, cbs, nel) in enumerate(specs):
        kind = sid % 3
        if kind == 0:
            payload = rng.integers(0, 256, nel * itemsize, dtype=np.uint8).tobytes()
        elif kind == 1:
            payload = bytes(nel * itemsize)
        else:
            payload = (np.arange(nel * itemsize) % 251).astype(np.uint8).tobytes()
        try:
            frames = make_stream(comp, payload, itemsize, cbs)
        except Exception as e:
            run.violation('writer-raises-' + type(e).__name__, dict(error=f'{type(e).__name__}: {e}'[:200], itemsize=itemsize, cbs=cbs, nel=nel, writer_options=repr(_LASTKW[0])))
            continue
        stream = b''.join(frames)
        # frame-writer check: big-endian uint32 length + frame
        pos = 0
        for f in frames:
            L = int.from_bytes(f[:4], 'big')
            if L != len(f) - 4:
                run.violation('writer-bad-prefix', dict(itemsize=itemsize, cbs=cbs, nel=nel, prefix=L, framelen=len(f) - 4))
        streams.append(dict(sid=sid, itemsize=itemsize, cbs=cbs, nel=nel, payload=payload, frames=frames, stream=stream))
    run.extra['streams'] = len(streams)
    run.sample(dict(stream=0, itemsize=streams[0]['itemsize'], cbs=streams[0]['cbs'], nel=streams[0]['nel'], nframes=len(streams[0]['frames']), stream_len=len(streams[0]['stream'])))

    budget_rand = 2000 if run.quick else 200000
    pair_cap = 160 if run.quick else 420
    for S in streams:
        sid, stream, payload, frames = S['sid'], S['stream'], S['payload'], S['frames']
        desc = dict(itemsize=S['itemsize'], compression_block_size=S['cbs'], nelem=S['nel'], nframes=len(frames), stream_len=len(stream))
        L = len(stream)

        def go(cuts, extra_empty=None):
            chunks = split(stream, cuts)
            if len(chunks) % 3 == 1:
                # the file layer may hand over any bytes-like object
                chunks = [bytearray(c) if j % 3 == 0 else (memoryview(c) if j % 3 == 1 else np.frombuffer(c, dtype=np.uint8)) for j, c in enumerate(chunks)]
            if extra_empty is not None:
                for p in extra_empty:
                    chunks.insert(p % (len(chunks) + 1), b'')
            cls = layout_classes(frames, cuts)
            run.nt((sid, tuple(sorted(cls))))
            for c in cls:
                run.count('cut_' + c)
            if extra_empty:
                run.count('with_empty_chunks')
            return drv.decode(stream, chunks, payload, sid, dict(cuts=list(cuts)[:40], **desc))

        # whole stream, and roundtrip identity
        if go([]):
            continue
        if L == 0:
            # empty stream: also a lone empty chunk
            drv.decode(stream, [b''], payload, sid, desc)
            continue
        # prefix-relevant positions
        prefix_pos = []
        pos = 0
        for f in frames:
            for d in range(-2, 7):
                if 0 < pos + d < L:
                    prefix_pos.append(pos + d)
            pos += len(f)
        prefix_pos = sorted(set(prefix_pos))
        # every single cut
        positions = range(1, L) if L <= 3000 else sorted(set(prefix_pos) | set(int(x) for x in rng.integers(1, L, 500)))
        for c in positions:
            if go([c]):
                break
        # every pair of cuts (short streams) or prefix-biased pairs
        if L <= pair_cap:
            pairs = itertools.combinations(range(1, L), 2)
        else:
            pp = prefix_pos + [int(x) for x in rng.integers(1, L, 30)]
            pairs = itertools.combinations(sorted(set(pp)), 2)
        for a, b in pairs:
            if go([a, b]):
                break
        # every constant chunk size
        sizes = range(1, L + 1) if L <= 600 else list(range(1, 40)) + [int(x) for x in rng.integers(40, L, 40)]
        for s in sizes:
            if go(list(range(s, L, s))):
                break
        # all subsets of prefix-relevant positions for short streams (exhaustive over those positions)
        if len(prefix_pos) <= (10 if run.quick else 14):
            for r in range(3, len(prefix_pos) + 1):
                for cuts in itertools.combinations(prefix_pos, r):
                    if go(cuts):
                        break
            run.count('prefix_subset_exhaustive_streams')
        # empty chunks inserted anywhere
        for k in range(20 if run.quick else 200):
            ncut = int(rng.integers(0, 5))
            cuts = sorted(set(int(x) for x in rng.choice(prefix_pos if rng.random() < 0.6 else np.arange(1, L), size=min(ncut, L - 1), replace=False))) if L > 1 and ncut else []
            go(cuts, extra_empty=[int(x) for x in rng.integers(0, 10, int(rng.integers(1, 4)))])
        # random compositions biased to prefixes
        nrand = max(10, budget_rand // len(streams))
        for k in range(nrand):
            ncut = int(rng.integers(1, 12))
            pool = prefix_pos if rng.random() < 0.7 else np.arange(1, L)
            if len(pool) == 0:
                continue
            cuts = sorted(set(int(x) for x in rng.choice(pool, size=min(ncut, len(pool)), replace=False)))
            if go(cuts):
                break
        if run.too_many():
            break

    # the writer's nthreads option: frames of very different compression cost (incompressible first, all-zero later), several MiB,
    # many blocks -- the frames must still come out in block order, whatever finishes first
    for t, nth in enumerate([2, 4, 8, 3] if run.quick else [2, 3, 4, 8, 16, 2, 4, 8]):
        nblk = 12 + t
        cbs = 1 << 18
        parts = [rng.integers(0, 256, cbs, dtype=np.uint8) if b < 3 or b % 5 == 0 else np.zeros(cbs, dtype=np.uint8) for b in range(nblk)]
        parts.append(np.arange(1000 + t, dtype=np.uint8))  # short last block
        payload = np.concatenate(parts).tobytes()
        data = memoryview(np.frombuffer(payload, dtype=np.uint32 if len(payload) % 4 == 0 else np.uint8))
        desc = dict(writer_nthreads=nth, nblocks=nblk + 1, payload_bytes=len(payload), compression_block_size=cbs)
        run.progress(desc)
        for rep in range(2):
            run.ev()
            try:
                frames = list(comp.compress(data, compression_block_size=cbs, nthreads=nth))
                stream = b''.join(bytes(f) for f in frames)
                ob = np.zeros(len(payload), dtype=np.uint8)
                ret = comp.decompress(iter(split(stream, [len(stream) // 3, len(stream) // 3 + 2])), ob.data)
            except Exception as e:
                run.violation('writer-threads-' + type(e).__name__, dict(error=f'{type(e).__name__}: {e}'[:200], **desc))
                break
            run.nt(('writer-threads', nth, rep))
            run.count('threaded_writer_round_trips')
            if ret != len(payload) or bytes(ob) != payload:
                first = next((i for i in range(0, len(payload), cbs) if bytes(ob[i : i + cbs]) != payload[i : i + cbs]), None)
                run.violation('writer-threads-round-trip-differs', dict(returned=int(ret), first_differing_block=None if first is None else first // cbs, **desc))
                break
    # one frame larger than 4 MiB (an incompressible block with compression_block_size above the 4 MiB default), cut inside the frame
    big = rng.integers(0, 256, 6 * (1 << 20) + 12345, dtype=np.uint8)
    bigframes = list(comp.compress(memoryview(big), compression_block_size=8 * (1 << 20)))
    bigstream = b''.join(bytes(f) for f in bigframes)
    for cuts in ([], [len(bigstream) // 2], [3, len(bigstream) - 5], [1 << 22, (1 << 22) + 16, (1 << 22) + 17]):
        ob = np.zeros(len(big), dtype=np.uint8)
        run.ev()
        run.nt(('big-frame', tuple(cuts)))
        try:
            ret = comp.decompress(iter(split(bigstream, cuts)), ob.data)
        except Exception as e:
            run.violation('chunking-' + type(e).__name__, dict(error=f'{type(e).__name__}: {e}'[:200], frame_bytes=len(bigstream) - 4, cuts=cuts))
            continue
        if ret != len(big) or not np.array_equal(ob, big):
            run.violation('chunking-wrong-bytes', dict(frame_bytes=len(bigstream) - 4, cuts=cuts, returned=int(ret)))
    del big, bigstream, bigframes
    # two decompressions in flight on the one compressor object that asdf keeps per process: the chunk source of the outer
    # stream runs a complete decompression of another stream between two of its chunks (both split inside frames)
    multi = [S for S in streams if len(S['stream']) > 40 and S['nel'] > 0]
    for a in range(min(len(multi), 30 if run.quick else 400)):
        X, Y = multi[a], multi[(a * 7 + 3) % len(multi)]
        for fx in (0.3, 0.55, 0.9):
            cx = sorted({max(1, int(len(X['stream']) * fx) - 2), max(2, int(len(X['stream']) * fx) + 3)})
            cy = [max(1, len(Y['stream']) // 2 - 1), max(2, len(Y['stream']) // 2 + 2)]
            inner = {}

            def chunks_x():
                parts = split(X['stream'], cx)
                for i, c in enumerate(parts):
                    if i == 1:
                        ob = np.zeros(len(Y['payload']), dtype=np.uint8)
                        try:
                            inner['ret'] = comp.decompress(iter(split(Y['stream'], cy)), ob.data)
                            inner['ok'] = bytes(ob) == Y['payload']
                        except Exception as e:  # noqa
                            inner['err'] = f'{type(e).__name__}: {e}'[:200]
                    yield c

            ob = np.zeros(len(X['payload']), dtype=np.uint8)
            run.ev()
            run.count('reentrant_decompressions')
            desc = dict(outer_stream=X['sid'], inner_stream=Y['sid'], outer_cuts=cx, inner_cuts=cy)
            try:
                ret = comp.decompress(chunks_x(), ob.data)
            except Exception as e:
                run.violation('chunking-interleaved-' + type(e).__name__, dict(error=f'{type(e).__name__}: {e}'[:200], **desc))
                continue
            run.nt(('reentrant', X['sid'], Y['sid'], fx))
            if inner.get('err') or not inner.get('ok') or inner.get('ret') != len(Y['payload']) or ret != len(X['payload']) or bytes(ob) != X['payload']:
                run.violation('chunking-interleaved-wrong-bytes', dict(inner=inner.get('err') or bool(inner.get('ok')), outer_ok=bool(bytes(ob) == X['payload']), **desc))

    if monitoring:
        mon.set_local_events(TOOL, code, 0)
        mon.register_callback(TOOL, mon.events.LINE, None)
        mon.free_tool_id(TOOL)
        src, first = inspect.getsourcelines(BloscCompressor.decompress)
        markers = {
            'accumulate_partial_prefix': '_partial_len += block\n',
            'finish_partial_prefix': '_partial_len += block[:remaining]',
            'direct_prefix_read': "_size = struct.unpack('!I', block[:4])[0]",
            'open_buffer': '_buffer = np.empty(',
            'buffer_complete': 'memoryview(_buffer), out + bytesout',
            'direct_frame': 'memoryview(block[:_size]), out + bytesout',
        }
        cov = {}
        for name, text in markers.items():
            ln = [first + i for i, l in enumerate(src) if text in l]
            cov[name] = (bool(ln) and any(l in lines_hit for l in ln)) if ln else None
        run.extra['decompress_branches_executed'] = cov
        run.extra['decompress_lines_executed'] = len(lines_hit)
        missing = [k for k, v in cov.items() if v is False]
        if missing:
            run.note_inconclusive(f'reassembly branches never executed: {missing}')
    for need in ('cut_in_prefix_1', 'cut_in_prefix_2', 'cut_in_prefix_3', 'cut_after_prefix', 'cut_in_frame', 'cut_frame_end'):
        if not run.counters.get(need):
            run.note_inconclusive(f'no chunking exercised {need}')
    run.count('decompress_calls', drv.ncalls)

    # --- end to end through asdf.open with forced IO block sizes
    end_to_end(run)


def end_to_end(run):
    import os
    import shutil
    import tempfile

    import asdf

    from ..asdfio import write_asdf

    rng = run.rng(9)
    d = tempfile.mkdtemp(prefix='verif_c14_')
    try:
        arrs = {
            'a': rng.integers(0, 1 << 30, (3001, 3)).astype(np.int32),
            'b': rng.random(517),
            'c': np.zeros(0, dtype=np.uint64),
            'd': rng.integers(0, 255, 70000).astype(np.uint8),
            'e': rng.integers(0, 1 << 60, 999).astype(np.uint64),
        }
        for cbs in (4096, 1 << 22, 64):
            fn = os.path.join(d, f'f{cbs}.asdf')
            write_asdf(fn, {'data': arrs}, 'blsc', dict(compression_block_size=cbs))
            for bs in (1, 2, 3, 4, 5, 7, 16, 4096, 65536):
                if run.quick and cbs == 64 and bs < 3:
                    continue
                with asdf.config_context() as cfg:
                    cfg.io_block_size = bs
                    with asdf.open(fn, lazy_load=True, memmap=False) as af:
                        for k, v in arrs.items():
                            if bs < 4 and k == 'd' and cbs == 64:
                                continue
                            run.ev()
                            run.nt(('e2e', cbs, bs, k))
                            try:
                                got = af['data'][k][:]
                            except Exception as e:
                                run.violation('asdf-read-' + type(e).__name__, dict(io_block_size=bs, compression_block_size=cbs, column=k, error=str(e)[:200]))
                                continue
                            if not np.array_equal(got, v):
                                run.violation('asdf-read-wrong-bytes', dict(io_block_size=bs, compression_block_size=cbs, column=k))
                run.count('asdf_open_block_sizes')
    finally:
        shutil.rmtree(d, ignore_errors=True)


def replay(run, data):
    check(run)
