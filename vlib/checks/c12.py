"""C12 — HOD staging keeps every per-halo attribute on the same row.

Unique-identity workload: every per-halo source value written to the generated subsample files is
an injective function of (halo id, column); after the real AbacusHOD(...) constructor has staged
them, each row's attributes are recomputed from the id found in that row."""

import logging
import os
import shutil
import tempfile
import warnings

import numpy as np

from .. import core
from ..asdfio import write_asdf

LEVEL = 'exploration'
RULE = (
    'generated subsample directories (1-6 slabs, ids increasing / decreasing / interleaved / random across slabs, duplicate-free, an almost empty slab; chunk / n_chunks settings; '
    'flags want_AB, want_shear, want_ranks, want_expvel; tracer sets selecting the plain or _MT file names) staged by the real AbacusHOD constructor; every per-halo array checked row by row '
    'against the identity function of the id in that row, ids increasing, hid[pinds]==phid, particle arrays in file order. non-trivial = distinct (id order, slabs, flags, chunking) '
    'cases whose ids are not already sorted across slabs'
)
RULE += (
    ' Added after seeded round 9: 11-16 slab directories loaded in chunks; the last three objects kept alive and every array of theirs (host indices included) re-compared after each later construction.'
)
RULE += (
    ' Added after seeded round 10: several AbacusHOD objects constructed in one process over the SAME simulation directory, redshift and chunk, each selecting another file family '
    '(plain / _MT via the tracer set or force_mt, with / without _withranks via want_ranks) whose files hold equal total (and, in half of the groups, equal per-slab) halo and particle counts '
    'but other ids / slab order / particle hosts, visited in a random order, the first family visited again at the end and the same chunk of every family staged in turn; '
    'every object compared with ITS OWN files (hid[pinds]==phid, every column), never with an earlier object.'
)
RULE += (
    ' Added after seeded round 11: AbacusHOD constructions that RAISE part-way through staging (the particle family the options ask for absent: want_ranks without _withranks files or the reverse; '
    'the tracer set asking for the _MT / plain family that is absent; the halo or particle file of a LATER slab of the chunk missing or truncated, so that earlier slabs were already counted) '
    'followed in the same process by a valid construction over the SAME directory / redshift / chunk (files put back), ids decreasing / interleaved / random across slabs; '
    'the verdict comes only from the later valid object compared with its own files.'
)
ASSUMPTIONS = ['z_mock=0.5 (a "primary" redshift, particles loaded) for 9 of 11 cases; every 11th case a secondary redshift (0.575/0.45/1.625: halo files only) and every 11th one with particle files that hold no particle; at least one halo per staged chunk (the constructor takes min/max of the masses)']

MPART = 2.0e9


_IDBASE = [0]


def fh(h, col, comp=0):
    """Injective per-(id, column, component) value."""
    base = dict(x=1, v=2, vdev_g=3, vdev_e=4, sig=5, r98=6, r25=7, N=8, dc=9, fe=10, multi=11, rnd=12, sh=13)[col]
    h = np.asarray(h, dtype=np.int64) - _IDBASE[0]  # ids may carry a large common offset; the value function stays float32-injective
    return (np.asarray(h, dtype=np.float64) * 37.0 + base * 1000003.0 + comp * 0.25) / 1024.0


def make_dir(rng, nslab, order, want_ranks, mt, halos_per_slab, scalar_vdev=False, physical=False, idbase=0, z=0.5, no_particles=False, lc=False, short_ranks=False, zero_r25=False, root=None, parts_per_slab=None):
    # root: write this file family into an existing directory tree (next to the families already there);
    # parts_per_slab: fixed particle counts per slab instead of drawn ones (both additive: the defaults leave every draw as it was)
    if root is None:
        root = tempfile.mkdtemp(prefix='verif_hod_')
    sim = 'SimH'
    hdir = os.path.join(root, 'sims', sim, 'halos', 'z%4.3f' % z, 'halo_info')
    os.makedirs(hdir, exist_ok=True)
    header = dict(H0=67.0, BoxSize=2000.0, ParticleMassHMsun=MPART, VelZSpace_to_kms=1.3e5, SimName=sim)
    for s in range(nslab):
        write_asdf(os.path.join(hdir, f'halo_info_{s:03d}.asdf'), dict(header=header, data=dict(id=np.zeros(1, dtype=np.uint64))))
    if lc:
        # halo light-cone catalogue: one lc_halo_info.asdf per redshift (so one "slab"), observer position in the header
        assert nslab == 1
        lcdir = os.path.join(root, 'sims', sim, 'z%4.3f' % z)
        os.makedirs(lcdir, exist_ok=True)
        write_asdf(os.path.join(lcdir, 'lc_halo_info.asdf'), dict(header=dict(header, LightConeOrigins=[-990.0, -990.0, -990.0, -990.0, -990.0, -2990.0]), data=dict(id=np.zeros(1, dtype=np.uint64))))
    sub = os.path.join(root, 'subs', sim, 'z%4.3f' % z)
    os.makedirs(sub, exist_ok=True)
    import h5py

    Htot = sum(halos_per_slab)
    _IDBASE[0] = int(idbase)
    ids = rng.choice(np.arange(100, 100 + 50 * Htot), Htot, replace=False).astype(np.int64) + np.int64(idbase)
    if order == 'decreasing_slabs':
        srt = np.sort(ids)
        S = halos_per_slab[0]
        ids = np.concatenate([srt[i * S : (i + 1) * S] for i in range(nslab)][::-1])
    elif order == 'increasing':
        ids = np.sort(ids)
    elif order == 'decreasing':
        ids = np.sort(ids)[::-1].copy()
    elif order == 'interleaved':
        ids = np.sort(ids)
        # slab s gets ids s, s+nslab, ... (each slab sorted, slabs interleaved)
        parts = [ids[s::nslab] for s in range(nslab)]
        # sizes follow the interleave; override halos_per_slab
        halos_per_slab = [len(p) for p in parts]
        ids = np.concatenate(parts)
    # 'random': as drawn
    hdt = [('id', 'i8'), ('x_L2com', 'f4', 3), ('v_L2com', 'f4', 3), ('randoms_exp', 'f4', 3), ('randoms_gaus_vrms', 'f4') if scalar_vdev else ('randoms_gaus_vrms', 'f4', 3), ('sigmav3d_L2com', 'f4'), ('r98_L2com', 'f4'), ('r25_L2com', 'f4'), ('N', 'u4'), ('deltac_rank', 'f4'), ('fenv_rank', 'f4'), ('multi_halos', 'f4'), ('randoms', 'f4'), ('shear_rank', 'f4')]
    pdt = [('pos', 'f4', 3), ('vel', 'f4', 3), ('halo_vel', 'f4', 3), ('halo_mass', 'f4'), ('halo_id', 'i8'), ('Np', 'f4'), ('downsample_halo', 'f4'), ('randoms', 'f4'), ('halo_deltac', 'f4'), ('halo_fenv', 'f4'), ('halo_shear', 'f4'), ('ranks', 'f4'), ('ranksv', 'f4'), ('ranksp', 'f4'), ('ranksr', 'f4'), ('ranksc', 'f4')]
    if short_ranks:
        pdt = [f for f in pdt if f[0] not in ('ranksp', 'ranksr', 'ranksc')]  # older subsample files carry only ranks and ranksv
    off = 0
    zero_ids = []
    truth = dict(slabs=[], root=root)
    pserial = 0
    for s in range(nslab):
        H = halos_per_slab[s]
        hid = ids[off : off + H]
        off += H
        h = np.zeros(H, dtype=hdt)
        h['id'] = hid
        for c in range(3):
            h['x_L2com'][:, c] = fh(hid, 'x', c)
            h['v_L2com'][:, c] = fh(hid, 'v', c)
            h['randoms_exp'][:, c] = fh(hid, 'vdev_e', c)
            if not scalar_vdev:
                h['randoms_gaus_vrms'][:, c] = fh(hid, 'vdev_g', c)
        if scalar_vdev:
            h['randoms_gaus_vrms'] = fh(hid, 'vdev_g')
        h['sigmav3d_L2com'] = fh(hid, 'sig')
        h['r98_L2com'] = fh(hid, 'r98')
        h['r25_L2com'] = fh(hid, 'r25')
        if zero_r25 and H:
            h['r25_L2com'][:: max(2, H // 3)] = 0.0  # a vanishing inner radius: the concentration r98/r25 of that halo is +inf (that is what the division gives)
            zero_ids.extend(int(x) for x in hid[:: max(2, H // 3)])
        h['N'] = ((hid - np.int64(idbase)) % 100000) + 50
        h['deltac_rank'] = fh(hid, 'dc')
        h['fenv_rank'] = fh(hid, 'fe')
        h['multi_halos'] = fh(hid, 'multi')
        h['randoms'] = fh(hid, 'rnd')
        h['shear_rank'] = fh(hid, 'sh')
        if physical:
            # values in the ranges the HOD rule expects (used by C09's end-to-end cases), still functions of the id
            h['randoms'] = ((hid * 0.6180339887498949) % 1.0)
            h['multi_halos'] = 1.0 + (hid % 3) * 0.5
            h['deltac_rank'] = ((hid * 7) % 100) / 100.0 - 0.5
            h['fenv_rank'] = ((hid * 13) % 100) / 100.0 - 0.5
            h['shear_rank'] = ((hid * 29) % 100) / 100.0 - 0.5
            h['N'] = (10 ** (1.5 + ((hid * 0.3819660112501051) % 1.0) * 3.3)).astype(np.uint32)
            for c in range(3):
                h['x_L2com'][:, c] = ((hid * (0.1234 + 0.1 * c)) % 1.0) * 1900.0 - 950.0
                h['v_L2com'][:, c] = ((hid * (0.4321 + 0.1 * c)) % 1.0) * 800.0 - 400.0
                h['randoms_gaus_vrms'][:, c] = ((hid * (0.777 + 0.1 * c)) % 1.0) * 300.0 - 150.0
        if parts_per_slab is not None:
            P = int(parts_per_slab[s]) if H else 0
        else:
            P = int(rng.integers(0, 4 * max(H, 1))) if H else 0
        if no_particles:
            P = 0
        p = np.zeros(P, dtype=pdt)
        if P:
            host = rng.choice(hid, P)
            ser = np.arange(pserial, pserial + P)
            pserial += P
            p['halo_id'] = host
            for c in range(3):
                p['pos'][:, c] = ser + 0.25 * c
                p['vel'][:, c] = -ser - 0.25 * c
                p['halo_vel'][:, c] = fh(host, 'v', c)
            p['halo_mass'] = (((host - np.int64(idbase)) % 100000) + 50) * 1.0
            p['Np'] = 1 + ser % 7
            p['downsample_halo'] = 0.5
            p['randoms'] = (ser % 1000) / 1000.0
            p['halo_deltac'] = fh(host, 'dc')
            p['halo_fenv'] = fh(host, 'fe')
            p['halo_shear'] = fh(host, 'sh')
            for j, r in enumerate(('ranks', 'ranksv', 'ranksp', 'ranksr', 'ranksc')):
                if r in p.dtype.names:
                    p[r] = ser * 8 + j
            if physical:
                idx = np.searchsorted(np.sort(hid), host)
                hs = h[np.argsort(hid)][idx]
                p['halo_mass'] = hs['N'].astype(np.float64) * MPART
                p['halo_vel'] = hs['v_L2com']
                p['halo_deltac'], p['halo_fenv'], p['halo_shear'] = hs['deltac_rank'], hs['fenv_rank'], hs['shear_rank']
                p['pos'] = hs['x_L2com'] + ((ser[:, None] * np.array([0.11, 0.23, 0.37])) % 1.0) - 0.5
                p['vel'] = hs['v_L2com'] + ((ser[:, None] * np.array([0.31, 0.17, 0.53])) % 1.0) * 600 - 300
                p['Np'] = 5 + ser % 40
                p['randoms'] = 1e-4 + ((ser * 0.7548776662466927) % 1.0) * 0.9998
                for j, r in enumerate(('ranks', 'ranksv', 'ranksp', 'ranksr', 'ranksc')):
                    if r in p.dtype.names:
                        p[r] = ((ser * (0.211 + 0.1 * j)) % 1.0) * 2 - 1
        tag = '_MT' if mt else ''
        hf = os.path.join(sub, f'halos_xcom_{s}_seed600_abacushod_oldfenv{tag}_new.h5')
        pf = os.path.join(sub, f'particles_xcom_{s}_seed600_abacushod_oldfenv{tag}' + ('_withranks' if want_ranks else '') + '_new.h5')
        with h5py.File(hf, 'w') as f:
            f.create_dataset('halos', data=h)
        with h5py.File(pf, 'w') as f:
            f.create_dataset('particles', data=p)
        truth['slabs'].append(dict(h=h, p=p))
    truth.update(sim=sim, sim_dir=os.path.join(root, 'sims'), subsample_dir=os.path.join(root, 'subs'), out=os.path.join(root, 'out'), halos_per_slab=halos_per_slab, z=z, lc=lc, zero_r25_ids=zero_ids)
    return truth


class _NumpyProxy:
    def __init__(self, real):
        self._real = real

    def __getattr__(self, name):
        if name == 'histogramdd':
            return lambda *a, **k: (self._real.zeros(1), [])
        return getattr(self._real, name)


import contextlib


@contextlib.contextmanager
def stub_histogram(AH):
    """abacus_hod sees a numpy whose histogramdd is a stub.  The module's jitted helper is compiled first,
    while the real numpy is still in place (numba cannot type the proxy)."""
    AH._searchsorted_parallel(np.arange(3, dtype=np.int64), np.arange(2, dtype=np.int64))
    real_np = AH.np
    AH.np = _NumpyProxy(real_np)
    try:
        yield
    finally:
        AH.np = real_np


def _hc_expected(hid, truth):
    r25 = np.asarray(fh(hid, 'r25'), dtype=np.float32)
    if truth.get('zero_r25_ids'):
        r25 = np.where(np.isin(hid, np.array(truth['zero_r25_ids'], dtype=np.int64)), np.float32(0), r25)
    with np.errstate(divide='ignore', invalid='ignore'):
        return (np.float32(1) * np.asarray(fh(hid, 'r98'), dtype=np.float32) / r25).astype(np.float64)


def f32(x):
    return np.asarray(x, dtype=np.float32).astype(np.float64)


def stage_and_check(run, AH, truth, flags, tracers, chunk, n_chunks, desc):
    sim_params = dict(sim_name=truth['sim'], sim_dir=truth['sim_dir'], subsample_dir=truth['subsample_dir'], z_mock=truth.get('z', 0.5), output_dir=truth['out'])
    if truth.get('lc'):
        sim_params['halo_lc'] = True
    if desc.get('force_mt'):
        sim_params['force_mt'] = True
    HOD = dict(tracer_flags={t: (t in tracers) for t in ('LRG', 'ELG', 'QSO')}, want_rsd=bool(desc.get('case', 0) % 3 != 1), LRG_params={}, ELG_params={}, QSO_params={}, **flags)
    run.progress(desc)
    run.ev()
    core.poison_prime()
    with warnings.catch_warnings():
        warnings.simplefilter('ignore')
        if desc.get('log_level') == 'DEBUG':
            # the package's logger fully enabled (as after setup_logging('debug')): diagnostics must only report
            lg = logging.getLogger('AbacusHOD')
            if not any(isinstance(h, logging.NullHandler) for h in lg.handlers):
                lg.addHandler(logging.NullHandler())
            lg.propagate = False
            lg.setLevel(logging.DEBUG)
            logging.disable(logging.NOTSET)
        else:
            logging.disable(logging.CRITICAL)
        # The constructor also builds 100^3 and 100^4-bin mass-function histograms (0.8 GB, ~2 s) that no
        # property is about: for most cases the abacus_hod module sees a numpy whose histogramdd is a
        # stub; every 8th case runs the constructor completely unmodified.
        import numba as _nb

        # the thread count a previous run_hod / compute_ngal call left in force (they set it and never restore it)
        nthr_in_force = [_nb.config.NUMBA_NUM_THREADS, 2, 5, 1, 16, 3][desc['case'] % 6]
        desc['numba_threads_in_force'] = nthr_in_force
        _nb.set_num_threads(min(nthr_in_force, _nb.config.NUMBA_NUM_THREADS))
        obj = None
        try:
            if desc['case'] % 8 != 0:
                with stub_histogram(AH):
                    obj = AH.AbacusHOD(sim_params, HOD, chunk=chunk, n_chunks=n_chunks)
            else:
                run.count('unmodified_constructor_runs')
                obj = AH.AbacusHOD(sim_params, HOD, chunk=chunk, n_chunks=n_chunks)
        except Exception as e:  # every generated directory is a valid one: staging must not fail on it
            run.violation('staging-raises-' + type(e).__name__, dict(error=f'{type(e).__name__}: {e}'[:200], **desc))
        finally:
            _nb.set_num_threads(_nb.config.NUMBA_NUM_THREADS)
            logging.disable(logging.NOTSET)
            logging.getLogger('AbacusHOD').setLevel(logging.WARNING)
    if obj is None:
        return True
    hd, pd = obj.halo_data, obj.particle_data
    # the object staged before this one keeps its own data (nothing shared between objects)
    # (the last three objects stay alive, as the chunk objects of one script do; every array of theirs is compared, host indices included)
    held = getattr(stage_and_check, '_held', [])
    for prev in held:
        for (kind, name), snap in prev[1].items():
            cur = (prev[0].halo_data if kind == 'h' else prev[0].particle_data).get(name)
            if cur is None or not np.array_equal(np.asarray(cur), snap, equal_nan=True):
                run.violation('staging-earlier-object-changed', dict(array=name, earlier_case=prev[2], **desc))
                break
        run.count('earlier_objects_rechecked')
    snap = {('h', n): np.array(v) for n, v in hd.items() if isinstance(v, np.ndarray)}
    snap.update({('p', n): np.array(v) for n, v in pd.items() if isinstance(v, np.ndarray)})
    stage_and_check._held = (held + [(obj, snap, desc.get('case'))])[-3:]
    nslab = len(truth['slabs'])
    n_jump = int(np.ceil(nslab / n_chunks))
    c = 0 if chunk == -1 else chunk
    sl = truth['slabs'][c * n_jump : min(nslab, (c + 1) * n_jump)]
    src_ids = np.concatenate([s['h']['id'] for s in sl])
    hid = hd['hid']
    if len(hid) != len(src_ids) or not np.array_equal(np.sort(src_ids), np.sort(hid)):
        return run.violation('staging-halo-set', dict(rows=len(hid), expected=len(src_ids), **desc))
    if not (np.diff(hid) > 0).all():
        return run.violation('staging-ids-not-increasing', desc)
    unsorted_input = not (np.diff(src_ids) > 0).all()
    if unsorted_input:
        run.nt((desc['order'], desc['nslab'], tuple(sorted(flags.items())), chunk, n_chunks, tuple(tracers)))
    vdevcol = 'vdev_e' if flags.get('want_expvel') else 'vdev_g'
    scalar = desc.get('scalar_vdev') and not flags.get('want_expvel')
    expect = {
        'hpos': np.stack([f32(fh(hid, 'x', c)) for c in range(3)], axis=1),
        'hvel': np.stack([f32(fh(hid, 'v', c)) for c in range(3)], axis=1),
        'hveldev': np.stack([f32(fh(hid, vdevcol, 0 if scalar else c)) for c in range(3)], axis=1),
        'hmass': (((hid - _IDBASE[0]) % 100000) + 50).astype(np.float64) * MPART,
        'hmultis': f32(fh(hid, 'multi')),
        'hrandoms': f32(fh(hid, 'rnd')),
        'hsigma3d': f32(fh(hid, 'sig')),
        'hc': _hc_expected(hid, truth),
        'hrvir': f32(fh(hid, 'r98')),
    }
    if flags.get('want_AB'):
        expect['hdeltac'] = f32(fh(hid, 'dc'))
        expect['hfenv'] = f32(fh(hid, 'fe'))
    if flags.get('want_shear'):
        expect['hshear'] = f32(fh(hid, 'sh'))
    if scalar:
        # documented fallback: the scalar deviate is replicated (concatenate+reshape): only the multiset is defined
        expect.pop('hveldev')
    for col, e in expect.items():
        if col not in hd:
            return run.violation('staging-column-missing', dict(column=col, **desc))
        g = np.asarray(hd[col], dtype=np.float64)
        run.count('halo_values_checked', g.size)
        if g.shape != e.shape:
            return run.violation('staging-shape', dict(column=col, got=list(g.shape), **desc))
        ok = np.isclose(g, e, rtol=1e-6, atol=0, equal_nan=True)
        if not ok.all():
            i = int(np.argwhere(~ok)[0][0])
            # whose value is it?
            owner = None
            if g.ndim == 1:
                m = np.nonzero(np.isclose(e, g[i], rtol=1e-6))[0]
                owner = int(hid[m[0]]) if len(m) else None
            return run.violation('staging-column-misaligned', dict(column=col, row=i, id_in_row=int(hid[i]), value=float(g.reshape(len(g), -1)[i, 0]), expected=float(e.reshape(len(e), -1)[i, 0]), value_belongs_to_id=owner, nbad_rows=int((~ok).reshape(len(g), -1).any(axis=1).sum()), input_sorted=not unsorted_input, **desc))
        if core.poison_count(g.reshape(len(g), -1)[:, 0]):
            return run.violation('staging-unwritten-rows', dict(column=col, **desc))
    if truth.get('lc'):
        if obj.params.get('origin') is None or not np.array_equal(np.asarray(obj.params['origin'], dtype=float), [-990.0, -990.0, -990.0]):
            return run.violation('staging-lightcone-origin', dict(got=repr(obj.params.get('origin')), **desc))
    # particles
    psrc = np.concatenate([s['p'] for s in sl]) if sl else None
    if truth.get('z', 0.5) != 0.5:
        psrc = psrc[:0]  # secondary redshift: the particle subsample is not staged
    run.count('cases_without_staged_particles', int(len(psrc) == 0))
    if len(pd['phid']) != len(psrc):
        return run.violation('staging-particle-count', dict(got=len(pd['phid']), expected=len(psrc), **desc))
    if len(psrc):
        if not np.array_equal(pd['phid'], psrc['halo_id']):
            return run.violation('staging-particle-order', desc)
        pi = np.asarray(pd['pinds'])
        if pi.shape != pd['phid'].shape or (len(pi) and (pi.min() < 0 or pi.max() >= len(hid))):
            bad = int(np.nonzero((pi < 0) | (pi >= len(hid)))[0][0]) if pi.shape == pd['phid'].shape else -1
            return run.violation('staging-particle-host-index', dict(problem='host index outside the halo table', particle=bad, index=int(pi[bad]) if bad >= 0 else None, halos=len(hid), **desc))
        if not np.array_equal(hid[pd['pinds']], pd['phid']):
            i = int(np.nonzero(hid[pd['pinds']] != pd['phid'])[0][0])
            return run.violation('staging-particle-host-index', dict(particle=i, phid=int(pd['phid'][i]), hid_at_pinds=int(hid[pd['pinds'][i]]), **desc))
        checks = {'ppos': psrc['pos'], 'pvel': psrc['vel'], 'phvel': psrc['halo_vel'], 'phmass': psrc['halo_mass'], 'prandoms': psrc['randoms'], 'pweights': 1 / psrc['Np'].astype(np.float64) / psrc['downsample_halo'].astype(np.float64)}
        if flags.get('want_AB'):
            checks.update(pdeltac=psrc['halo_deltac'], pfenv=psrc['halo_fenv'])
        if flags.get('want_shear'):
            checks['pshear'] = psrc['halo_shear']
        if flags.get('want_ranks'):
            zero = np.zeros(len(psrc))  # documented fallback for rank columns the file does not carry
            checks.update(pranks=psrc['ranks'], pranksv=psrc['ranksv'], **{'p' + r: (psrc[r] if r in psrc.dtype.names else zero) for r in ('ranksp', 'ranksr', 'ranksc')})
        for col, e in checks.items():
            g = np.asarray(pd[col], dtype=np.float64)
            run.count('particle_values_checked', g.size)
            if not np.allclose(g, np.asarray(e, dtype=np.float64), rtol=1e-6, atol=0):
                return run.violation('staging-particle-column', dict(column=col, **desc))
        # each particle's host attributes agree with the staged halo row it points to
        if not np.allclose(pd['phvel'], hd['hvel'][pd['pinds']], rtol=1e-6):
            return run.violation('staging-particle-host-index', dict(problem='host velocity differs from halo row', **desc))
    return False


def check(run):
    from abacusnbody.hod import abacus_hod as AH

    rng = run.rng(0)
    ncase = 40 if run.quick else 600
    orders = ['interleaved', 'decreasing', 'random', 'increasing']
    for k in range(ncase):
        nslab = int(rng.integers(1, 7))
        order = orders[k % 4]
        hps = [int(rng.integers(1, 40)) for _ in range(nslab)]
        if k % 5 == 4:
            hps = [int(rng.integers(150, 420)) for _ in range(nslab)]  # several hundred to a couple of thousand halos in all (beyond 256, 512, 1024 rows)
        if k % 5 == 2 and nslab > 1:
            hps[int(rng.integers(0, nslab))] = 1  # an almost empty slab
        flags = dict(want_AB=bool(k % 2), want_shear=bool((k // 2) % 2), want_ranks=bool((k // 4) % 2), want_expvel=bool((k // 3) % 2))
        tracers = [('LRG',), ('LRG', 'ELG'), ('ELG',), ('LRG', 'ELG', 'QSO'), ('QSO',)][k % 5]
        mt = any(t in tracers for t in ('ELG', 'QSO'))
        scalar_vdev = k % 7 == 6
        idbase = 0
        if k % 6 == 1:
            # internally sorted slabs of equal size in decreasing order: every descent sits on a slab boundary
            nslab, S = [(2, 8), (4, 8), (4, 4), (2, 3), (8, 2), (16, 1), (2, 6), (3, 5)][(k // 6) % 8]
            hps, order = [S] * nslab, 'decreasing_slabs'
        if k % 10 == 8:
            # eleven or more slabs (file names whose numbers do not sort as text), loaded in chunks
            nslab = [12, 11, 14, 16][(k // 10) % 4]
            hps = [int(rng.integers(2, 12)) for _ in range(nslab)]
            run.count('cases_with_eleven_or_more_slabs')
        if k % 6 == 4:
            idbase = 1 << 60  # ids beyond 2^53 (still valid int64)
        # no staged particles: a secondary redshift (the particle subsample is never opened) or particle files that hold nothing
        zmock = [0.575, 0.45, 1.625][k // 11 % 3] if k % 11 == 3 else 0.5
        nopart = k % 11 == 7
        lc = k % 11 == 9  # halo light-cone layout (a single file per redshift)
        if lc:
            nslab, hps, order = 1, [int(rng.integers(2, 60))], ['random', 'decreasing'][k // 11 % 2]
        short_ranks = flags['want_ranks'] and k % 3 == 2
        force_mt = (not mt) and k % 4 == 3  # LRG only, but told to use the multi-tracer subsample files
        truth = make_dir(rng, nslab, order, flags['want_ranks'], mt or force_mt, hps, scalar_vdev=scalar_vdev, idbase=idbase, z=zmock, no_particles=nopart, lc=lc, short_ranks=short_ranks, zero_r25=(k % 7 == 2))
        try:
            chunkings = [(-1, 1)]
            if nslab >= 11:
                chunkings += [(0, 2), (1, 2), (2, 3)]
            if nslab >= 2 and k % 3 == 0:
                nch = int(rng.integers(2, nslab + 1))
                chunkings += [(int(rng.integers(0, nch)), nch)]
            if nslab >= 3:
                # a split that does not divide the slabs evenly: its last (shorter) chunk, and the one before it
                nch = next(n for n in (2, 3, 4, 5) if nslab % n)
                last = (nslab - 1) // int(np.ceil(nslab / nch))
                chunkings += [(last, nch)] + ([(last - 1, nch)] if last >= 1 and k % 2 else [])
            for chunk, nch in chunkings:
                # skip chunkings that select no slab (the constructor cannot handle an empty halo table)
                n_jump = int(np.ceil(nslab / nch))
                c = 0 if chunk == -1 else chunk
                if c * n_jump >= nslab:
                    continue
                desc = dict(case=k, nslab=nslab, order=order, halos_per_slab=truth['halos_per_slab'], chunk=chunk, n_chunks=nch, tracers=list(tracers), scalar_vdev=scalar_vdev, z_mock=zmock, empty_particle_files=nopart, light_cone=lc, short_rank_columns=short_ranks, force_mt=force_mt, log_level=('DEBUG' if k % 3 == 1 else 'off'), halos_with_zero_r25=(k % 7 == 2), **flags)
                if k < 3:
                    run.sample(desc)
                stage_and_check(run, AH, truth, flags, tracers, chunk, nch, desc)
        finally:
            shutil.rmtree(truth['root'], ignore_errors=True)
        if run.too_many():
            return
    # appended after all the single-directory cases (own random stream): objects over one directory, different file families
    check_file_families(run, AH)
    if run.too_many():
        return
    # appended after those (own random stream): rejected constructions, then a valid one over the same directory
    check_after_rejected(run, AH)


class _LaterObjectRun:
    """The run as seen by the staging of a LATER object over a directory that other objects were staged from in this process:
    any discrepancy with the object's own files is reported under one mechanism, with the failed comparison and the earlier constructions
    in the witness (a mechanism already listed as known keeps its own name)."""

    def __init__(self, run, earlier, mechanism='staging-differs-from-own-files-after-earlier-object-on-same-directory', witness_key='earlier_objects_on_this_directory'):
        self._run, self._earlier, self._mechanism, self._witness_key = run, earlier, mechanism, witness_key

    def __getattr__(self, name):
        return getattr(self._run, name)

    def violation(self, key, witness):
        if key in self._run.known.get(self._run.pid, {}) or key == 'staging-earlier-object-changed':
            return self._run.violation(key, witness)
        return self._run.violation(self._mechanism, dict(failed_comparison=key, **{self._witness_key: list(self._earlier)}, **witness))


def _composition(rng, total, parts):
    """total split into `parts` positive integers."""
    cuts = np.sort(rng.choice(np.arange(1, total), parts - 1, replace=False)) if parts > 1 else np.array([], dtype=int)
    return [int(x) for x in np.diff(np.concatenate([[0], cuts, [total]]))]


def check_file_families(run, AH):
    """Several objects in one process over ONE simulation directory / redshift, each selecting another file family
    ({plain, _MT} x {without, with ranks}) of equal total halo and particle counts but other ids, order and particle hosts.
    What an object holds is a function of the files its own options select: each is compared with those files."""
    rng = run.rng(1)
    ngroup = 6 if run.quick else 60
    case = 100001  # odd case numbers: the histogram stub is always in place
    for g in range(ngroup):
        nslab = int(rng.integers(2, 6))
        same_per_slab = g % 2 == 0  # equal counts slab by slab (so every chunk of the families has equal totals too), or equal totals only
        S = int(rng.integers(3, 25))
        hps0 = [S] * nslab if g % 3 == 0 else [int(rng.integers(2, 30)) for _ in range(nslab)]
        Htot = sum(hps0)
        pps0 = [int(rng.integers(1, 3 * h + 2)) for h in hps0]
        Ptot = sum(pps0)
        fams = [(False, False), (True, False), (False, True), (True, True)]  # (_MT, _withranks)
        fams = [fams[i] for i in rng.permutation(4)[: int(rng.integers(2, 5))]]
        if not any(f[0] for f in fams[:2]) and not any(f[1] for f in fams[:2]):
            fams[1] = (True, fams[1][1])
        orders = ['interleaved', 'decreasing', 'random', 'increasing'] + (['decreasing_slabs'] if g % 3 == 0 else [])
        root = None
        truths = []
        halo_files = {}  # the halo files carry no _withranks tag: the two particle families of one tag belong to the same halo files
        try:
            import h5py

            for j, (mt, ranks) in enumerate(fams):
                order = orders[int(rng.integers(0, len(orders)))] if j else 'increasing'  # the first family sorted (as shipped files are), the later ones not
                if same_per_slab and order == 'interleaved':
                    order = 'random'  # interleaving fixes the slab sizes itself
                hps = list(hps0) if (same_per_slab or order == 'decreasing_slabs') else _composition(rng, Htot, nslab)
                pps = list(pps0) if same_per_slab else _composition(rng, Ptot, nslab)
                sibling = halo_files.get(mt)
                if sibling is None:
                    halo_files[mt] = (rng.bit_generator.state, order, hps)
                    t = make_dir(rng, nslab, order, ranks, mt, hps, root=root, parts_per_slab=pps)
                else:
                    # same halo files (same ids in the same order: the generator is put back where the sibling started), other particle files
                    rng2 = np.random.default_rng(0)
                    rng2.bit_generator.state = sibling[0]
                    order, hps = sibling[1], sibling[2]
                    t = make_dir(rng2, nslab, order, ranks, mt, hps, root=root, parts_per_slab=pps)
                    sib = next(t2 for t2 in truths if t2['mt'] == mt)
                    assert all(np.array_equal(a['h'], b['h']) for a, b in zip(t['slabs'], sib['slabs']))
                    for si, sl in enumerate(t['slabs']):
                        # other particles in another order than the sibling's file
                        sl['p'] = sl['p'][rng.permutation(len(sl['p']))]
                        host = rng.choice(sl['h']['id'], len(sl['p']))
                        sl['p']['halo_id'] = host
                        for c in range(3):
                            sl['p']['halo_vel'][:, c] = fh(host, 'v', c)
                        sl['p']['halo_mass'] = ((host % 100000) + 50) * 1.0
                        sl['p']['halo_deltac'], sl['p']['halo_fenv'], sl['p']['halo_shear'] = fh(host, 'dc'), fh(host, 'fe'), fh(host, 'sh')
                        pf = os.path.join(t['subsample_dir'], t['sim'], 'z0.500', f'particles_xcom_{si}_seed600_abacushod_oldfenv' + ('_MT' if mt else '') + ('_withranks' if ranks else '') + '_new.h5')
                        assert os.path.exists(pf)
                        with h5py.File(pf, 'w') as f:
                            f.create_dataset('particles', data=sl['p'])
                root = t['root']
                t.update(mt=mt, ranks=ranks, order=order, parts_per_slab=pps)
                truths.append(t)
            assert len({sum(len(s['h']) for s in t['slabs']) for t in truths}) == 1 and len({sum(len(s['p']) for s in t['slabs']) for t in truths}) == 1
            visits = [(j, -1, 1) for j in rng.permutation(len(truths))]
            visits.append(visits[0])  # back to the first family
            n_jump = int(np.ceil(nslab / 2))
            ch = int(rng.integers(0, 2))
            if ch * n_jump < nslab:
                visits += [(j, ch, 2) for j in rng.permutation(len(truths))]  # the same chunk of every family
            earlier = []
            for j, chunk, nch in visits:
                t = truths[int(j)]
                flags = dict(want_AB=bool(rng.integers(0, 2)), want_shear=bool(rng.integers(0, 2)), want_ranks=t['ranks'], want_expvel=bool(rng.integers(0, 2)))
                force_mt = False
                if t['mt']:
                    tracers = [('LRG', 'ELG'), ('ELG',), ('QSO',), ('LRG', 'ELG', 'QSO'), ('LRG',)][int(rng.integers(0, 5))]
                    force_mt = tracers == ('LRG',)
                else:
                    tracers = ('LRG',)
                desc = dict(case=case, file_family_group=g, families_in_directory=[dict(MT=t2['mt'], withranks=t2['ranks'], order=t2['order'], halos_per_slab=t2['halos_per_slab'], parts_per_slab=t2['parts_per_slab']) for t2 in truths], nslab=nslab, order=t['order'], halos_per_slab=t['halos_per_slab'], chunk=chunk, n_chunks=nch, tracers=list(tracers), scalar_vdev=False, z_mock=0.5, force_mt=force_mt, log_level='off', **flags)
                case += 2
                if g == 0 and len(earlier) < 2:
                    run.sample(desc)
                _IDBASE[0] = 0
                stage_and_check(_LaterObjectRun(run, earlier) if earlier else run, AH, t, flags, tracers, chunk, nch, desc)
                if earlier:
                    run.count('objects_staged_after_another_file_family_of_the_same_directory')
                    if any((e['MT'], e['withranks']) != (t['mt'], t['ranks']) and (e['chunk'], e['n_chunks']) == (chunk, nch) for e in earlier):
                        run.nt(('after-other-family', nslab, t['order'], t['mt'], t['ranks'], chunk, nch, same_per_slab, len(earlier)))
                earlier.append(dict(MT=t['mt'], withranks=t['ranks'], tracers=list(tracers), force_mt=force_mt, chunk=chunk, n_chunks=nch, want_ranks=t['ranks']))
                if run.too_many():
                    return
        finally:
            if root:
                shutil.rmtree(root, ignore_errors=True)


def _slab_files(t, slab):
    sub = os.path.join(t['subsample_dir'], t['sim'], 'z%4.3f' % t.get('z', 0.5))
    tag = '_MT' if t['mt'] else ''
    return (
        os.path.join(sub, f'halos_xcom_{slab}_seed600_abacushod_oldfenv{tag}_new.h5'),
        os.path.join(sub, f'particles_xcom_{slab}_seed600_abacushod_oldfenv{tag}' + ('_withranks' if t['ranks'] else '') + '_new.h5'),
    )


def _rejected_construction(run, AH, t, kind, slab, flags, tracers, force_mt, chunk, nch):
    """One AbacusHOD(...) call that the package legitimately rejects (it raises on the unchanged tree as well).  Files moved aside for
    it are put back before returning.  Nothing about this call is a verdict: it is only counted."""
    flags = dict(flags)
    aside = None
    hf, pf = _slab_files(t, slab)
    assert os.path.exists(hf) and os.path.exists(pf)
    if kind == 'particle_family_absent':
        flags['want_ranks'] = not t['ranks']  # asks for the _withranks particle files while only the plain ones exist, or the reverse
    elif kind == 'tracer_family_absent':
        tracers, force_mt = (('LRG',), False) if t['mt'] else (('LRG', 'ELG'), False)  # asks for the plain / _MT family that is not there
    else:
        aside = hf if 'halo' in kind else pf
        os.rename(aside, aside + '.aside')
        if kind.endswith('truncated'):
            with open(aside + '.aside', 'rb') as f, open(aside, 'wb') as g:
                g.write(f.read(700))
    sim_params = dict(sim_name=t['sim'], sim_dir=t['sim_dir'], subsample_dir=t['subsample_dir'], z_mock=t.get('z', 0.5), output_dir=t['out'])
    if force_mt:
        sim_params['force_mt'] = True
    HOD = dict(tracer_flags={x: (x in tracers) for x in ('LRG', 'ELG', 'QSO')}, want_rsd=True, LRG_params={}, ELG_params={}, QSO_params={}, **flags)
    run.ev()
    raised = None
    try:
        with warnings.catch_warnings():
            warnings.simplefilter('ignore')
            logging.disable(logging.CRITICAL)
            try:
                with stub_histogram(AH):
                    AH.AbacusHOD(sim_params, HOD, chunk=chunk, n_chunks=nch)
            except Exception as e:  # the rejection itself (FileNotFoundError / OSError from the file open on the unchanged tree)
                raised = type(e).__name__
            finally:
                logging.disable(logging.NOTSET)
    finally:
        if aside is not None:
            if os.path.exists(aside):
                os.remove(aside)
            os.rename(aside + '.aside', aside)
    assert os.path.exists(hf) and os.path.exists(pf)
    if raised is None:
        run.count('rejected_calls_that_did_not_raise')  # not stated by the property: only counted
    else:
        run.count('rejected_calls_before_valid_ones')
        run.count('rejected_calls_raising_' + raised)
    return dict(kind=kind, slab=slab, raised=raised, want_ranks=flags['want_ranks'], tracers=list(tracers), force_mt=force_mt, chunk=chunk, n_chunks=nch)


def check_after_rejected(run, AH):
    """State left behind by a FAILED construction: one or two AbacusHOD(...) calls that raise part-way through staging, then a valid
    call over the same directory / redshift / chunk.  The valid object is compared with its own files (the same oracle as everywhere else
    in this module); the failed calls are only counted."""
    rng = run.rng(2)
    ngroup = 10 if run.quick else 80
    case = 200001  # odd case numbers: the histogram stub is always in place
    orders = ['decreasing_slabs', 'interleaved', 'decreasing', 'random', 'decreasing_slabs', 'interleaved', 'increasing']
    for g in range(ngroup):
        order = orders[g % len(orders)]
        nslab = int(rng.integers(2, 7))
        if order == 'decreasing_slabs':
            hps = [int(rng.integers(1, 20))] * nslab
        else:
            hps = [int(rng.integers(1, 30)) for _ in range(nslab)]
        mt, ranks = bool(rng.integers(0, 2)), bool(rng.integers(0, 2))
        _IDBASE[0] = 0
        t = make_dir(rng, nslab, order, ranks, mt, hps)
        t.update(mt=mt, ranks=ranks)
        try:
            chunkings = [(-1, 1)]
            if nslab >= 4:
                chunkings.append((int(rng.integers(0, 2)), 2))
            if g % 2:
                chunkings.reverse()
            for chunk, nch in chunkings:
                n_jump = int(np.ceil(nslab / nch))
                c = 0 if chunk == -1 else chunk
                start, end = c * n_jump, min(nslab, (c + 1) * n_jump)
                if end - start < 1:
                    continue
                flags = dict(want_AB=bool(rng.integers(0, 2)), want_shear=bool(rng.integers(0, 2)), want_ranks=ranks, want_expvel=bool(rng.integers(0, 2)))
                force_mt = False
                if mt:
                    tracers = [('LRG', 'ELG'), ('ELG',), ('QSO',), ('LRG', 'ELG', 'QSO'), ('LRG',)][int(rng.integers(0, 5))]
                    force_mt = tracers == ('LRG',)
                else:
                    tracers = ('LRG',)
                kinds = ['particle_family_absent', 'tracer_family_absent']
                if end - start >= 2:
                    kinds += ['later_halo_file_missing', 'later_particle_file_missing', 'later_halo_file_truncated', 'later_particle_file_truncated']
                nrej = int(rng.integers(1, 3))
                first = int(rng.integers(0, len(kinds)))
                rejected = []
                for r in range(nrej):
                    kind = kinds[(first + r * 2) % len(kinds)] if r else ('particle_family_absent' if (g + (chunk != -1)) % 3 == 0 else kinds[first])
                    slab = int(rng.integers(start + 1, end)) if kind.startswith('later') else start
                    rejected.append(_rejected_construction(run, AH, t, kind, slab, flags, tracers, force_mt, chunk, nch))
                desc = dict(case=case, rejected_group=g, nslab=nslab, order=order, halos_per_slab=t['halos_per_slab'], chunk=chunk, n_chunks=nch, tracers=list(tracers), scalar_vdev=False, z_mock=0.5, force_mt=force_mt, log_level='off', files_MT=mt, files_withranks=ranks, **flags)
                case += 2
                if g == 0:
                    run.sample(dict(rejected_calls_before=rejected, **desc))
                _IDBASE[0] = 0
                stage_and_check(_LaterObjectRun(run, rejected, 'staging-differs-from-own-files-after-rejected-construction-on-same-directory', 'rejected_constructions_before_on_this_directory'), AH, t, flags, tracers, chunk, nch, desc)
                run.count('objects_staged_after_a_rejected_construction_on_the_same_directory')
                src_ids = np.concatenate([s['h']['id'] for s in t['slabs'][start:end]])
                if any(r['raised'] for r in rejected) and not (np.diff(src_ids) > 0).all():
                    run.nt(('after-rejected', tuple(r['kind'] for r in rejected if r['raised']), order, nslab, chunk, nch, mt, ranks))
                if run.too_many():
                    return
        finally:
            shutil.rmtree(t['root'], ignore_errors=True)


def replay(run, data):
    check(run)
