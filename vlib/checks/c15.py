"""C15 — pack9 streams decode one particle per record relative to its cell header.

Reference decoder (numpy int64 + float64, vectorised with forward-filled header state) and an
independent encoder, both written from the record layout, against the real compiled kernel."""

import itertools

import numpy as np

from .. import core

LEVEL = 'exploration'
RULE = (
    'record streams built by an independent encoder: every 12-bit value in each of the six fields x random other nibbles, '
    'nibble patterns 0x0/0xF, header/particle interleavings (header first, runs of headers, header last, 1-50 particles between headers, '
    'empty stream, particles before any header), cpd in {1,2,3,875,1700,1701,4046,4047}, velocity scales, cell indices incl. 0 and cpd-1; '
    'a case = one stream decoded by the real unpack_pack9 in one (dtype, output mode); non-trivial = distinct (stream family, cpd, dtype, output mode)'
)
RULE += (
    ' Added after seeded round 9: earlier allocate-mode results re-compared after later calls; 8 Python threads decoding 8 different streams at the same time.'
)
RULE += (
    ' Added after seeded round 11: calls that are REJECTED (1-D / read-only / list / scalar / string posout or velout, unknown float_dtype, non-numeric boxsize, '
    'flat 1-D data -> TypingError / TypeError / ValueError) followed by valid calls on the SAME input buffer object refilled in place with a different stream of '
    'the same length (same or different header layout), refilled again, and on fresh buffers in either float type, each compared with the reference decoder.'
)
ASSUMPTIONS = [
    'float64 outputs compared at 1e-12*BoxSize; float32 outputs at 8 ulp(BoxSize) + 1e-6 relative (rounding of the float32 pipeline)',
    'particles that precede the first header decode to NaN by design; only their count is checked',
]

CPDS = [1, 2, 3, 875, 1700, 1701, 4046, 4047]


def fields_of(data):
    c = data.astype(np.int64)
    f = np.empty((len(c), 6), dtype=np.int64)
    f[:, 0] = c[:, 0] * 16 + (c[:, 1] & 0x0F)
    f[:, 1] = (c[:, 1] >> 4) * 256 + c[:, 2]
    f[:, 2] = c[:, 3] * 16 + (c[:, 4] & 0x0F)
    f[:, 3] = (c[:, 4] >> 4) * 256 + c[:, 5]
    f[:, 4] = c[:, 6] * 16 + (c[:, 7] & 0x0F)
    f[:, 5] = (c[:, 7] >> 4) * 256 + c[:, 8]
    return f


def pack_fields(f):
    """Inverse of fields_of: six 12-bit fields -> 9 bytes (the independent encoder's byte layout)."""
    f = np.asarray(f, dtype=np.int64)
    c = np.empty((len(f), 9), dtype=np.int64)
    for k in range(3):
        a, b = f[:, 2 * k], f[:, 2 * k + 1]
        c[:, 3 * k] = a >> 4
        c[:, 3 * k + 1] = (a & 0xF) | ((b >> 8) << 4)
        c[:, 3 * k + 2] = b & 0xFF
    return c.astype(np.uint8)


def ref_decode(data, box, velz):
    """float64 reference. Returns pos, vel (npart,3), and mask of records that had a header before them."""
    f = fields_of(data)
    is_hdr = data[:, 0] == 0xFF
    idx = np.arange(len(data))
    last_hdr = np.maximum.accumulate(np.where(is_hdr, idx, -1))
    part = ~is_hdr
    lh = last_hdr[part]
    valid = lh >= 0
    s = f - 2048
    H = s[np.maximum(lh, 0)]  # header fields for each particle
    cpd = (H[:, 1] + 2000).astype(np.float64)
    vsc = (H[:, 2] + 2000).astype(np.float64)
    csize = box / cpd
    cell = (H[:, 3:6] + 2000.5) * csize[:, None] - box / 2
    P = s[part]
    pos = P[:, 0:3] * (0.0005 * csize)[:, None] + cell
    vel = P[:, 3:6] * (vsc * 0.0005 / cpd * velz)[:, None]
    pos[~valid] = np.nan
    vel[~valid] = np.nan
    return pos, vel, valid


def header_record(cpd, vs, cell, lownib=0):
    f = np.array([[0xFF0 | (lownib & 0xF), cpd + 48, vs + 48, cell[0] + 48, cell[1] + 48, cell[2] + 48]])
    return pack_fields(f)


def compare(run, data, box, velz, dtype, pos, vel, n_expected_from, tag, mode):
    rp, rv, valid = ref_decode(data, box, velz)
    desc = dict(stream=tag, nrec=len(data), box=box, velz=velz, dtype=np.dtype(dtype).str, mode=mode)
    for name, got, ref in (('pos', pos, rp), ('vel', vel, rv)):
        if got is None:
            continue
        if len(got) != len(ref):
            return run.violation('pack9-count', dict(which=name, got=len(got), expected=len(ref), **desc))
        run.count('pack9_values_compared', got.size)
        g = got.astype(np.float64)
        scale = box if name == 'pos' else np.nanmax(np.abs(ref), initial=1.0)
        if dtype == np.float64:
            tol = 1e-12 * scale + 1e-12 * np.abs(ref)
        else:
            tol = 8 * float(np.spacing(np.float32(scale))) + 2e-6 * np.abs(ref)
        with np.errstate(invalid='ignore'):
            bad = ~((np.abs(g - ref) <= tol) | (np.isnan(g) & np.isnan(ref)))
        if bad.any():
            i = np.argwhere(bad)[0]
            prow = np.nonzero(data[:, 0] != 0xFF)[0][i[0]]
            return run.violation(
                f'pack9-{name}-decode',
                dict(particle=int(i[0]), comp=int(i[1]), record=data[prow].tolist(), got=float(g[tuple(i)]), expected=float(ref[tuple(i)]), nbad=int(bad.sum()), **desc),
            )
        pc = core.poison_count(got)
        if pc:
            return run.violation('pack9-unwritten-output', dict(which=name, count=pc, **desc))
    return False


def run_modes(run, pack9, data, box, velz, tag, modes):
    """Decode with the real unpack_pack9 under several (dtype, output mode) settings."""
    npart_ref = int((data[:, 0] != 0xFF).sum())
    G = 8
    for dtype, mode in modes:
        run.ev()
        run.count('pack9_records_decoded', len(data))
        core.poison_prime()
        N = len(data)
        posout = velout = None
        bufs = []
        if mode == 'alloc':
            pos, vel = pack9.unpack_pack9(data, box, velz, float_dtype=dtype)
        elif mode == 'pos_only':
            pos, v = pack9.unpack_pack9(data, box, velz, float_dtype=dtype, velout=False)
            vel = None
            if isinstance(v, np.ndarray) or v != 0:
                run.violation('pack9-output-mode', dict(problem='velout=False did not return 0', ret=repr(v)))
        elif mode == 'vel_only':
            p, vel = pack9.unpack_pack9(data, box, velz, float_dtype=dtype, posout=False)
            pos = None
            if isinstance(p, np.ndarray) or p != 0:
                run.violation('pack9-output-mode', dict(problem='posout=False did not return 0', ret=repr(p)))
        elif mode in ('supplied_strided', 'supplied_otherdtype'):
            bdt = dtype if mode == 'supplied_strided' else (np.float64 if dtype == np.float32 else np.float32)
            big = np.full((N, 6), 4242.0, dtype=bdt)
            if mode == 'supplied_strided':
                po, vo = big[:, :3], big[:, 3:]
            else:
                po, vo = np.full((N, 3), 4242.0, dtype=bdt), np.full((N, 3), 4242.0, dtype=bdt)
            try:
                np_, nv_ = pack9.unpack_pack9(data, box, velz, float_dtype=dtype, posout=po, velout=vo)
            except Exception as e:
                run.count('unusual_supplied_output_rejected')  # a refusal is not a wrong result
                continue
            if np_ != npart_ref or nv_ != npart_ref:
                run.violation('pack9-count', dict(stream=tag, mode=mode, returned=[int(np_), int(nv_)], expected=npart_ref))
                continue
            if not ((po[npart_ref:] == 4242.0).all() and (vo[npart_ref:] == 4242.0).all()):
                run.violation('pack9-canary', dict(stream=tag, mode=mode, problem='wrote beyond the first npart rows of a supplied output'))
            pos, vel = np.array(po[:npart_ref]), np.array(vo[:npart_ref])
            if npart_ref and ((pos == 4242.0).all() or (vel == 4242.0).all()):
                run.violation('pack9-supplied-output-not-filled', dict(stream=tag, mode=mode, dtype=np.dtype(dtype).str))
                continue
            # compare at the lower of the two precisions
            cmp_dtype = np.float32 if (dtype == np.float32 or bdt == np.float32) else np.float64
            if compare(run, data, box, velz, cmp_dtype, pos, vel, npart_ref, tag, mode):
                return True
            run.nt((tag.split(':')[0], np.dtype(dtype).str, mode, tag.split(':')[1] if ':' in tag else ''))
            continue
        elif mode == 'supplied_exact':
            # outputs sized to the number of particles (fewer rows than records whenever the stream has headers); one of them only
            which = ('both', 'pos', 'vel')[run.counters.get('supplied_exact_calls', 0) % 3]
            run.count('supplied_exact_calls')
            pb = np.full((npart_ref + 2 * G, 3), 4242.0, dtype=dtype)
            vb = np.full((npart_ref + 2 * G, 3), 4242.0, dtype=dtype)
            po = pb[G : G + npart_ref] if which in ('both', 'pos') else False
            vo = vb[G : G + npart_ref] if which in ('both', 'vel') else False
            np_, nv_ = pack9.unpack_pack9(data, box, velz, float_dtype=dtype, posout=po, velout=vo)
            exp_counts = [npart_ref if po is not False else 0, npart_ref if vo is not False else 0]
            if [int(np_), int(nv_)] != exp_counts:
                run.violation('pack9-count', dict(stream=tag, mode=mode, outputs=which, returned=[int(np_), int(nv_)], expected=exp_counts))
                continue
            for b in (pb, vb):
                if not ((b[:G] == 4242.0).all() and (b[G + npart_ref :] == 4242.0).all()):
                    run.violation('pack9-canary', dict(stream=tag, mode=mode, problem='wrote outside a supplied output sized to the particle count'))
            pos = pb[G : G + npart_ref] if po is not False else None
            vel = vb[G : G + npart_ref] if vo is not False else None
        else:  # supplied
            pb = np.full((N + 2 * G, 3), 4242.0, dtype=dtype)
            vb = np.full((N + 2 * G, 3), 4242.0, dtype=dtype)
            np_, nv_ = pack9.unpack_pack9(data, box, velz, float_dtype=dtype, posout=pb[G : G + N], velout=vb[G : G + N])
            if np_ != npart_ref or nv_ != npart_ref:
                run.violation('pack9-count', dict(stream=tag, mode=mode, returned=[int(np_), int(nv_)], expected=npart_ref))
                continue
            for b in (pb, vb):
                if not ((b[:G] == 4242.0).all() and (b[G + N :] == 4242.0).all() and (b[G + npart_ref : G + N] == 4242.0).all()):
                    run.violation('pack9-canary', dict(stream=tag, mode=mode, problem='wrote outside the first npart rows of a supplied output'))
            pos, vel = pb[G : G + npart_ref], vb[G : G + npart_ref]
        if pos is not None and (pos.dtype != dtype or pos.ndim != 2):
            run.violation('pack9-output-mode', dict(problem='pos dtype/shape', got=str(pos.dtype)))
        run.nt((tag.split(':')[0], np.dtype(dtype).str, mode, tag.split(':')[1] if ':' in tag else ''))
        if compare(run, data, box, velz, dtype, pos, vel, npart_ref, tag, mode):
            return True
    return False


ALL_MODES = list(itertools.product((np.float64, np.float32), ('alloc', 'pos_only', 'vel_only', 'supplied', 'supplied_strided', 'supplied_otherdtype', 'supplied_exact')))


def check(run):
    from abacusnbody.data import pack9

    rng = run.rng(0)
    nsweep_rep = 1 if run.quick else 40

    # 1. field sweeps: every 12-bit value in each field x random other nibbles, under a header
    for rep in range(nsweep_rep):
        for cpd in CPDS:
            box = [2000.0, 1.0, 500.0, 7400.0][int(rng.integers(0, 4))]
            velz = float(rng.uniform(50, 3000))
            vs = int(rng.integers(1, 4048))
            cell = [int(x) for x in rng.integers(0, cpd, 3)]
            if rep == 0:
                cell = [0, cpd - 1, cpd // 2]
            recs = [header_record(cpd, vs, cell, lownib=int(rng.integers(0, 16)))]
            for fld in range(6):
                f = rng.integers(0, 4096, (4096, 6))
                f[:, fld] = np.arange(4096)
                if fld != 0:
                    f[:, 0] = rng.integers(0, 0xFF0, 4096)
                recs.append(pack_fields(f))
            data = np.concatenate(recs)
            # field-0 values >= 0xFF0 are headers by definition: keep them, they are part of the stream
            modes = ALL_MODES if (rep == 0 and cpd in (1, 1700)) else [ALL_MODES[int(rng.integers(0, len(ALL_MODES)))], (np.float64, 'alloc')]
            if run_modes(run, pack9, data, box, velz, f'fieldsweep:cpd{cpd}', modes):
                return
    run.sample(dict(family='fieldsweep', header=header_record(1701, 1234, [0, 1700, 850]).tolist(), first_particle=pack_fields(np.array([[0, 1, 2, 3, 4, 5]])).tolist()))

    # 2. nibble patterns 0x0/0xF over all 18 nibbles of a particle record (first byte != 0xFF)
    pats = []
    for bits in range(1 << 18):
        if not run.quick or bits % 7 == 0 or bits < 4096:
            pats.append(bits)
    pats = np.array(pats, dtype=np.int64)
    nib = ((pats[:, None] >> np.arange(18)) & 1) * 0xF
    by = (nib[:, 0::2] << 4 | nib[:, 1::2]).astype(np.uint8)
    by = by[by[:, 0] != 0xFF]
    data = np.concatenate([header_record(875, 2000, [1, 2, 3]), by])
    if run_modes(run, pack9, data, 2000.0, 1000.0, 'nibblepatterns:cpd875', [(np.float64, 'alloc'), (np.float32, 'supplied')]):
        return

    # 3. interleavings of headers and particles
    ninter = 150 if run.quick else 6000
    for k in range(ninter):
        cpd = CPDS[int(rng.integers(0, len(CPDS)))]
        box = float(rng.choice([1.0, 500.0, 2000.0]))
        velz = float(rng.uniform(10, 5000))
        recs = []
        kind = k % 8
        nseg = int(rng.integers(1, 8))
        if kind == 0:
            nseg = 0  # empty stream
        if kind == 1:
            recs.append(pack_fields(np.column_stack([rng.integers(0, 0xFF0, 5)] + [rng.integers(0, 4096, 5) for _ in range(5)])))  # particles before any header
        for sgm in range(nseg):
            nh = 1 if kind != 2 else int(rng.integers(1, 5))  # several headers in a row
            for _ in range(nh):
                if kind in (4, 7):
                    cpd = CPDS[int(rng.integers(0, len(CPDS)))]  # cells-per-dimension is per header: it may change within a stream
                recs.append(header_record(cpd, int(rng.integers(1, 4048)), [int(x) for x in rng.integers(0, cpd, 3)], lownib=int(rng.integers(0, 16))))
            n = int(rng.integers(0 if kind in (3, 4) else 1, 51))
            if n:
                f = rng.integers(0, 4096, (n, 6))
                f[:, 0] = rng.integers(0, 0xFF0, n)
                recs.append(pack_fields(f))
        if kind == 3 and nseg:
            recs.append(header_record(cpd, 1, [0, 0, 0]))  # header last
        if kind == 5 and nseg:
            recs.append(np.zeros((int(rng.integers(1, 4)), 9), dtype=np.uint8))  # all-zero records are particles (every field raw 0), also at the very end
        if kind == 6:
            recs = [np.zeros((1 + k % 3, 9), dtype=np.uint8)] if k % 16 == 6 else recs + [np.zeros((1, 9), dtype=np.uint8)]
        data = np.concatenate(recs) if recs else np.zeros((0, 9), dtype=np.uint8)
        m = ALL_MODES[k % len(ALL_MODES)]
        if run_modes(run, pack9, data, box, velz, f'interleave{kind}:cpd{cpd}', [m] + ([(np.float64, 'alloc')] if m != (np.float64, 'alloc') else [])):
            return
        if k < 2:
            run.sample(dict(family=f'interleave{kind}', records=data[:6].tolist(), nrec=len(data)))

    # 3b. the record array in other (valid) memory layouts: column-major, transposed (9,N) source, row-strided and
    # column-sliced views, reversed-and-reversed-back, read-only, nested list -- the records are the rows in every case
    for k in range(6 if run.quick else 200):
        cpd = CPDS[int(rng.integers(0, len(CPDS)))]
        recs = []
        for sgm in range(int(rng.integers(1, 5))):
            recs.append(header_record(cpd, int(rng.integers(1, 4048)), [int(x) for x in rng.integers(0, cpd, 3)]))
            n = int(rng.integers(1, 40))
            f = rng.integers(0, 4096, (n, 6))
            f[:, 0] = rng.integers(0, 0xFF0, n)
            recs.append(pack_fields(f))
        data = np.ascontiguousarray(np.concatenate(recs))
        N = len(data)
        wide = np.zeros((N, 12), dtype=np.uint8)
        wide[:, 2:11] = data
        tall = np.zeros((3 * N, 9), dtype=np.uint8)
        tall[::3] = data
        ro = data.copy()
        ro.flags.writeable = False
        variants = {'int8-view': data.view(np.int8), 'int8-copy': data.astype(np.int8), 'fortran': np.asfortranarray(data), 'transposed-source': np.ascontiguousarray(data.T).T, 'column-slice': wide[:, 2:11], 'row-strided': tall[::3], 'double-reversed': data[::-1].copy()[::-1], 'read-only': ro, 'nested-list': data.tolist()}
        pos0, vel0 = pack9.unpack_pack9(data, 500.0, 1000.0, float_dtype=np.float64)
        for label, arg in variants.items():
            run.ev()
            run.nt(('layout', label, k))
            try:
                p, v = pack9.unpack_pack9(arg, 500.0, 1000.0, float_dtype=np.float64)
            except Exception as e:
                run.count('unusual_input_layout_rejected')  # a refusal is not a wrong result
                continue
            if p.shape != pos0.shape or not (np.array_equal(p, pos0, equal_nan=True) and np.array_equal(v, vel0, equal_nan=True)):
                run.violation('pack9-input-layout-dependence', dict(layout=label, particles_got=len(p), particles_expected=len(pos0), nrec=N))
                break

    # 4. round trip through the independent encoder: within one quantum
    nrt = 20 if run.quick else 400
    for k in range(nrt):
        cpd = CPDS[k % len(CPDS)]
        box = 2000.0
        velz = 1234.5
        vs = int(rng.integers(100, 4048))
        ncell = 6
        recs, xs, vsv = [], [], []
        for c in range(ncell):
            cell = rng.integers(0, cpd, 3)
            n = 300
            off = rng.uniform(-0.5, 0.5, (n, 3))  # in cells
            csize = box / cpd
            x = (cell + 0.5 + off) * csize - box / 2
            vq = vs * 0.0005 / cpd * velz
            v = rng.uniform(-2000, 2000, (n, 3)) * vq
            fp = np.rint(off * 2000).astype(np.int64) + 2048
            fv = np.clip(np.rint(v / vq).astype(np.int64) + 2048, 0, 4095)
            recs.append(header_record(cpd, vs, [int(t) for t in cell]))
            recs.append(pack_fields(np.column_stack([fp, fv])))
            xs.append(x)
            vsv.append(v)
        data = np.concatenate(recs)
        x = np.concatenate(xs)
        v = np.concatenate(vsv)
        pos, vel = pack9.unpack_pack9(data, box, velz, float_dtype=np.float64)
        run.ev()
        run.nt(('roundtrip', cpd, k // len(CPDS)))
        q = box / cpd / 2000
        vq = vs * 0.0005 / cpd * velz
        if len(pos) != len(x):
            run.violation('pack9-count', dict(family='roundtrip', got=len(pos), expected=len(x)))
            continue
        if (np.abs(pos - x) > q * (0.5 + 1e-6)).any():
            i = np.argwhere(np.abs(pos - x) > q * (0.5 + 1e-6))[0]
            run.violation('pack9-roundtrip-pos', dict(cpd=cpd, x=float(x[tuple(i)]), decoded=float(pos[tuple(i)]), quantum=q))
        if (np.abs(vel - v) > vq * (0.5 + 1e-6)).any():
            i = np.argwhere(np.abs(vel - v) > vq * (0.5 + 1e-6))[0]
            run.violation('pack9-roundtrip-vel', dict(cpd=cpd, v=float(v[tuple(i)]), decoded=float(vel[tuple(i)]), quantum=vq))

    # 4b. call history and concurrent callers.  Results handed out earlier stay what they were after later calls (same float type,
    # outputs left to the routine, a stream no longer than the earlier one), and decodes issued at the same time from several
    # Python threads (a thread pool over files) each return their own stream's particles.
    def mkstream(n, cpd):
        f = rng.integers(0, 4096, (n, 6))
        f[:, 0] = rng.integers(0, 0xFF0, n)
        return np.concatenate([header_record(cpd, int(rng.integers(1, 4000)), [int(t) for t in rng.integers(0, cpd, 3)]), pack_fields(f)])

    for dtype in (np.float32, np.float64):
        first = mkstream(5000, 77)
        held = pack9.unpack_pack9(first, 500.0, 1000.0, float_dtype=dtype)
        snap = [np.array(a, copy=True) for a in held]
        for n2 in (5000, 4999, 300):
            pack9.unpack_pack9(mkstream(n2, 12), 500.0, 1000.0, float_dtype=dtype)
            run.ev()
            run.nt(('held_results', np.dtype(dtype).str, n2))
            run.count('earlier_results_rechecked', 2)
            if any(not np.array_equal(a, b, equal_nan=True) for a, b in zip(held, snap)):
                run.violation('pack9-earlier-result-changed-by-later-call', dict(dtype=np.dtype(dtype).str, first_stream_records=len(first), later_stream_records=n2 + 1))
                break
    import threading

    nth = 8
    streams = [mkstream(150000 + 1000 * i, (3, 875, 1700, 12)[i % 4]) for i in range(nth)]
    for rep in range(2 if run.quick else 10):
        res = [None] * nth
        bar = threading.Barrier(nth)

        def work(i):
            bar.wait()
            try:
                res[i] = pack9.unpack_pack9(streams[i], 2000.0, 1000.0, float_dtype=np.float64)
            except Exception as e:  # noqa
                res[i] = e

        ths = [threading.Thread(target=work, args=(i,)) for i in range(nth)]
        [t.start() for t in ths]
        [t.join() for t in ths]
        run.ev()
        run.nt(('concurrent-callers', rep))
        for i in range(nth):
            run.count('concurrent_decodes_checked')
            if isinstance(res[i], Exception):
                run.violation('pack9-concurrent-callers', dict(problem=f'{type(res[i]).__name__}: {res[i]}'[:200], threads=nth))
                break
            if compare(run, streams[i], 2000.0, 1000.0, np.float64, res[i][0], res[i][1], len(streams[i]) - 1, f'concurrent:thread{i}of{nth}', 'alloc'):
                break

    # 5. a stream of millions of records through read_asdf (the anchored second entry point): one cell holding 2^21+70001
    # particles with no header in between, then an ordinary cell
    import os
    import shutil
    import tempfile

    from abacusnbody.data import read_abacus as RA

    from ..asdfio import write_asdf

    nbig = 2**21 + 70001
    f = rng.integers(0, 4096, (nbig, 6))
    f[:, 0] = rng.integers(0, 0xFF0, nbig)
    f2 = rng.integers(0, 4096, (50, 6))
    f2[:, 0] = rng.integers(0, 0xFF0, 50)
    data = np.concatenate([header_record(875, 1234, [1, 2, 3]), pack_fields(f), header_record(3, 999, [2, 0, 1]), pack_fields(f2)])
    d = tempfile.mkdtemp(prefix='verif_c15_')
    try:
        fn = os.path.join(d, 'big.asdf')
        write_asdf(fn, dict(header=dict(BoxSize=2000.0, VelZSpace_to_kms=1000.0, ppd=6912.0, OutputType='TimeSlice'), data=dict(pack9=data)), None)
        for load, dtype in ((['pos', 'vel'], np.float64), (['pos'], np.float32)):
            run.ev()
            run.count('pack9_records_decoded', len(data))
            t = RA.read_asdf(fn, load=load, dtype=dtype, verbose=False)
            run.nt(('read_asdf-big', tuple(load), np.dtype(dtype).str))
            if set(t.colnames) != set(load) or len(t) != nbig + 50:
                run.violation('pack9-count', dict(stream='read_asdf: one cell of 2^21+70001 particles', got=len(t), expected=nbig + 50, columns=t.colnames))
                continue
            compare(run, data, 2000.0, 1000.0, dtype, np.asarray(t['pos']) if 'pos' in load else None, np.asarray(t['vel']) if 'vel' in load else None, nbig + 50, 'read_asdf:one-huge-cell', 'read_asdf')
        # the same records stored blsc-compressed in many small frames (so that frame boundaries and length prefixes fall on
        # every possible offset of the file layer's read chunks)
        small = data[: 9 * 60001 // 9]
        small = data[:200001]
        fn2 = os.path.join(d, 'small_frames.asdf')
        write_asdf(fn2, dict(header=dict(BoxSize=2000.0, VelZSpace_to_kms=1000.0, ppd=6912.0, OutputType='TimeSlice'), data=dict(pack9=small)), 'blsc', compression_kwargs=dict(compression_block_size=99))
        run.ev()
        try:
            t = RA.read_asdf(fn2, load=['pos', 'vel'], dtype=np.float64, verbose=False)
        except Exception as e:
            run.violation('pack9-read-asdf-raises-' + type(e).__name__, dict(error=f'{type(e).__name__}: {e}'[:200], stream='read_asdf: blsc, 99-byte blocks', nrec=len(small)))
        else:
            run.nt(('read_asdf-small-frames',))
            nexp = int((small[:, 0] != 0xFF).sum())
            if len(t) != nexp:
                run.violation('pack9-count', dict(stream='read_asdf: blsc, 99-byte blocks', got=len(t), expected=nexp))
            else:
                compare(run, small, 2000.0, 1000.0, np.float64, np.asarray(t['pos']), np.asarray(t['vel']), nexp, 'read_asdf:small-frames', 'read_asdf')
    finally:
        shutil.rmtree(d, ignore_errors=True)

    # 6. valid calls after REJECTED calls (own random stream; appended after all other workload)
    after_rejected_calls(run, pack9)


def _mismatch(data, box, velz, dtype, pos, vel):
    """None if (pos, vel) are the reference decode of `data` (same tolerances as compare()), else a description."""
    rp, rv, _ = ref_decode(data, box, velz)
    for name, got, ref in (('pos', pos, rp), ('vel', vel, rv)):
        if got is None:
            continue
        if len(got) != len(ref):
            return dict(which=name, problem='count', got=int(len(got)), expected=int(len(ref)))
        g = np.asarray(got, dtype=np.float64)
        scale = box if name == 'pos' else np.nanmax(np.abs(ref), initial=1.0)
        if dtype == np.float64:
            tol = 1e-12 * scale + 1e-12 * np.abs(ref)
        else:
            tol = 8 * float(np.spacing(np.float32(scale))) + 2e-6 * np.abs(ref)
        with np.errstate(invalid='ignore'):
            bad = ~((np.abs(g - ref) <= tol) | (np.isnan(g) & np.isnan(ref)))
        if bad.any():
            i = np.argwhere(bad)[0]
            return dict(which=name, problem='value', particle=int(i[0]), comp=int(i[1]), got=float(g[tuple(i)]), expected=float(ref[tuple(i)]), nbad=int(bad.sum()))
    return None


def _valid_decode(pack9, data, box, velz, dtype, mode):
    """One valid call in the given output mode -> (pos, vel) arrays (None for an output not requested)."""
    N = len(data)
    if mode == 'alloc':
        return pack9.unpack_pack9(data, box, velz, float_dtype=dtype)
    if mode == 'pos_only':
        return pack9.unpack_pack9(data, box, velz, float_dtype=dtype, velout=False)[0], None
    if mode == 'vel_only':
        return None, pack9.unpack_pack9(data, box, velz, float_dtype=dtype, posout=False)[1]
    po = np.full((N, 3), 4242.0, dtype=dtype)
    vo = np.full((N, 3), 4242.0, dtype=dtype)
    n1, n2 = pack9.unpack_pack9(data, box, velz, float_dtype=dtype, posout=po, velout=vo)
    return po[: int(n1)], vo[: int(n2)]


# arguments the routine legitimately refuses (numba TypingError / TypeError / ValueError on the unchanged code)
REJECTIONS = ['velout_1d', 'posout_1d', 'posout_1d_no_vel', 'velout_readonly', 'posout_nested_list', 'velout_int_scalar', 'posout_str', 'bad_float_dtype', 'boxsize_str', 'data_flat_1d']


def _rejected_call(pack9, buf, box, velz, dtype, kind):
    """Make one call that is expected to be refused.  Name of the exception class if it was, else None."""
    N = len(buf)
    kw = dict(float_dtype=dtype)
    data = buf
    if kind == 'velout_1d':
        kw.update(posout=np.empty((N, 3), dtype=dtype), velout=np.empty(N, dtype=dtype))
    elif kind == 'posout_1d':
        kw.update(posout=np.empty(N, dtype=dtype))
    elif kind == 'posout_1d_no_vel':
        kw.update(posout=np.empty(N, dtype=dtype), velout=False)
    elif kind == 'velout_readonly':
        vo = np.zeros((N, 3), dtype=dtype)
        vo.flags.writeable = False
        kw.update(velout=vo)
    elif kind == 'posout_nested_list':
        kw.update(posout=[[0.0, 0.0, 0.0] for _ in range(N)])
    elif kind == 'velout_int_scalar':
        kw.update(velout=3)
    elif kind == 'posout_str':
        kw.update(posout='pos')
    elif kind == 'bad_float_dtype':
        kw.update(float_dtype='no-such-float-type')
    elif kind == 'boxsize_str':
        box = 'box'
    elif kind == 'data_flat_1d':
        data = buf.reshape(-1)  # same memory, not a record array
    from numba.core.errors import NumbaError

    try:
        pack9.unpack_pack9(data, box, velz, **kw)
    except (NumbaError, TypeError, ValueError) as e:  # TypingError is a NumbaError
        return type(e).__name__
    return None


def after_rejected_calls(run, pack9):
    """A call that is REFUSED (wrong-dimension / read-only / non-array outputs, bad float type, ...) must leave nothing behind:
    the next valid calls -- on the SAME input buffer object refilled in place with another stream of the same length, and on
    fresh buffers -- decode their own stream.  The verdict comes only from the valid calls, against the reference decoder."""
    rng = run.rng(1)
    MODES = ('alloc', 'supplied', 'pos_only', 'vel_only')

    def mkstream(nrec, layout, cpd):
        """nrec records; layout = sorted header positions (position 0 always a header)."""
        f = rng.integers(0, 4096, (nrec, 6))
        f[:, 0] = rng.integers(0, 0xFF0, nrec)
        d = pack_fields(f)
        for h in layout:
            d[h] = header_record(cpd, int(rng.integers(1, 4048)), [int(t) for t in rng.integers(0, cpd, 3)], lownib=int(rng.integers(0, 16)))[0]
        return d

    def layout_of(nrec, nh):
        return sorted({0, *[int(t) for t in rng.integers(1, nrec, max(nh - 1, 0))]})

    case = 0
    for rep, dtype in itertools.product(range(3 if run.quick else 40), (np.float64, np.float32)):
        for kind in REJECTIONS:
            nrec = int(rng.integers(40, 3000))
            box = float(rng.choice([1.0, 500.0, 2000.0]))
            velz = float(rng.uniform(10, 5000))
            cpd = CPDS[int(rng.integers(2, len(CPDS)))]
            layA = layout_of(nrec, int(rng.integers(3, 9)))
            # later streams of the same length: same header layout with other cells / velocity scales; fewer headers; another layout
            layB = [layA, layA[: max(1, len(layA) // 2)], layout_of(nrec, len(layA))][case % 3]
            A = mkstream(nrec, layA, cpd)
            B = mkstream(nrec, layB, cpd)
            C = mkstream(nrec, layA, CPDS[int(rng.integers(2, len(CPDS)))])
            buf = np.empty_like(A)
            desc = dict(rejected_call=kind, dtype=np.dtype(dtype).str, nrec=nrec, box=box, velz=velz, cpd=cpd, headers_first_stream=len(layA), headers_later_stream=len(layB))
            mode = MODES[case % len(MODES)]
            case += 1

            # the same valid calls made in isolation first: if these are wrong it is not a call-history matter
            buf[:] = A
            run.ev()
            pos, vel = _valid_decode(pack9, buf, box, velz, dtype, mode)
            bad = _mismatch(buf, box, velz, dtype, pos, vel)
            if bad:
                run.violation(f'pack9-{bad["which"]}-decode', dict(stream='before-rejected-call', mode=mode, **bad, **desc))
                return

            # the refused call(s), on the buffer holding stream A
            nrej = 1 + case % 2
            for _ in range(nrej):
                if _rejected_call(pack9, buf, box, velz, dtype, kind):
                    run.count('rejected_calls_before_valid_ones')
                else:
                    run.count('calls_expected_to_be_rejected_that_were_accepted')

            # valid calls afterwards: same buffer object refilled in place (twice), then fresh buffers, then the other float type
            later = [
                ('same-buffer-refilled', B, buf, dtype, mode),
                ('same-buffer-refilled-again', C, buf, dtype, MODES[(case + 1) % len(MODES)]),
                ('fresh-buffer', B, None, dtype, 'alloc'),
                ('fresh-buffer-first-stream', A, None, dtype, mode),
                ('fresh-buffer-other-float-type', C, None, np.float32 if dtype == np.float64 else np.float64, 'alloc'),
            ]
            for label, stream, target, dt, md in later:
                if target is None:
                    arg = np.array(stream, copy=True)
                else:
                    target[:] = stream
                    arg = target
                run.ev()
                run.count('valid_calls_after_rejected_calls')
                try:
                    pos, vel = _valid_decode(pack9, arg, box, velz, dt, md)
                except Exception as e:
                    run.violation('pack9-valid-call-after-rejected-call', dict(later_call=label, mode=md, later_dtype=np.dtype(dt).str, problem=f'raised {type(e).__name__}: {e}'[:200], **desc))
                    return
                bad = _mismatch(stream, box, velz, dt, pos, vel)
                if bad:
                    run.violation('pack9-valid-call-after-rejected-call', dict(later_call=label, mode=md, later_dtype=np.dtype(dt).str, **bad, **desc))
                    return
                run.nt(('after-rejected', kind, np.dtype(dtype).str, label, md))
    run.sample(dict(family='after-rejected-call', rejections=REJECTIONS, later_calls=['same-buffer-refilled', 'same-buffer-refilled-again', 'fresh-buffer', 'fresh-buffer-first-stream', 'fresh-buffer-other-float-type']))


def replay(run, data):
    check(run)
