"""C09 — galaxies follow the HOD threshold rule and inherit their host.

Reference HOD model (vlib.hodref, float64 numpy; occupation functions = the package's own through
py_func, as the statement defines the widths) against the real compiled gen_gal_cat, row by row;
plus the derived relations (one galaxy per host, nestedness in ic, tracer-subset invariance, RSD
moves only the line-of-sight coordinate)."""

import itertools
import warnings

import os

import numpy as np

from .. import core, hodref

LEVEL = 'exploration'
RULE = (
    'generated halo/particle tables (0..5000 hosts, 0..20000 particles; masses spanning the occupation turn-on; multiplicities; ranks; randoms incl. planted values at '
    'slice_edge*(1+-1e-9), 0 and 1) x all 7 tracer subsets x HOD parameter draws (assembly bias, conformity, rank and velocity-bias terms, ic) x RSD on/off x box observer / '
    'light-cone origin x Nthread; each catalogue compared row by row with the reference. non-trivial = distinct cases with >= 2 galaxies and >= 1 planted decisive random'
)
RULE += (
    ' Added after seeded round 9: decoy requests that switch every optional term on while the checked request omits it (sparse dicts leave default-valued keys out); every fifth case with halo ids 2^60 + odd.'
)
RULE += (
    ' Added after seeded round 10: call histories in one process (6-8 requests in a row through the same tracer dict objects: another params z with redshift-evolving thresholds on every tracer, other tables, '
    'equal-valued fresh dicts, a value edited in place and restored, a tracer dropped and re-added, rsd / enable_ranks / origin / velz2kms / Nthread toggled, the first request repeated at the end); every request compared with the reference for ITS inputs.'
)
ASSUMPTIONS = [
    'a random number within 1e-11 (relative) of a slice edge is ambiguous; such draws are re-drawn by the generator, planted ones sit at 1e-9 and are decisive',
    'ids, masses and unshifted coordinates compared exactly; velocities and RSD-shifted coordinates at 1e-11 relative (fastmath)',
    'the NFW satellite path draws fresh randoms and is outside the statement',
]

SUBSETS = [s for r in (1, 2, 3) for s in itertools.combinations(hodref.TR, r)]


def plant(rng, randoms, edges, frac=0.15):
    """Put some randoms at edge*(1+-1e-9) (decisive), at 0 where the first slice is wide, at 1; re-draw accidental ties."""
    n = len(randoms)
    if n == 0:
        return 0
    r = randoms
    nplant = 0
    idx = rng.choice(n, max(1, int(frac * n)), replace=False)
    for i in idx:
        k = int(rng.integers(1, 4))
        e = edges[k, i]
        if 1e-6 < e < 0.999999:
            r[i] = e * (1 - 1e-9) if rng.random() < 0.5 else e * (1 + 1e-9)
            nplant += 1
    z = rng.choice(n, max(1, n // 50), replace=False)
    for i in z:
        if edges[1, i] > 1e-6 or (edges[1, i] == 0 and edges[2, i] > 1e-6):
            r[i] = 0.0 if edges[1, i] > 1e-6 else r[i]
    r[rng.choice(n, max(1, n // 100), replace=False)] = 1.0
    # re-draw accidental ties
    for _ in range(5):
        _, amb = hodref.decide(r, edges)
        if not amb.any():
            break
        r[amb] = rng.random(int(amb.sum()))
    return nplant


def make_case(rng, ref, k, sizes=None, equal_mass_neighbours=False):
    H = int(rng.choice(sizes or [0, 1, 2, 17, 300, 1003, 5000]))
    P = int(rng.choice([0, 1, 50, 2000, 20000])) if H else 0
    lbox = float(rng.choice([500.0, 2000.0, 333.0, 250.5]))  # half the box need not be an integer
    if equal_mass_neighbours:
        # hosts of exactly equal mass next to each other in the tables, with different environments, every occupation term switched on
        H, P = [300, 1003][k % 2], [4000, 20000][(k // 2) % 2]
    halo, part = hodref.gen_tables(rng, H, P, lbox=lbox, with_env=bool(k % 4) or equal_mass_neighbours, mass_step=0.7 if equal_mass_neighbours else None)
    sub = SUBSETS[k % 7] if not equal_mass_neighbours else [('LRG',), ('LRG', 'ELG'), ('LRG', 'ELG', 'QSO'), ('ELG', 'QSO')][k % 4]
    tracers = hodref.gen_tracers(rng, sub, fancy=[False, True, 'sparse'][k % 3] if not equal_mass_neighbours else True)
    if equal_mass_neighbours and 'ELG' in tracers and k % 2:
        # ELG thresholds that evolve with redshift while the conformity masses are left to their defaults (= the evolved logM1)
        for key in ('logM1_EE', 'logM1_EL', 'alpha_EE', 'alpha_EL'):
            tracers['ELG'].pop(key, None)
        tracers['ELG'].update(z_pivot=0.8, logM_cut_pr=0.4, logM1_pr=-0.9)
    if (k // 3) % 2 and len(tracers) > 1:
        # the caller's dict may list the tracers in any order; results are labelled by tracer name
        names = list(tracers)
        names = names[::-1] if len(names) == 2 or (k // 6) % 2 else names[1:] + names[:1]
        tracers = {t: tracers[t] for t in names}
    enable_ranks = bool(k % 2)
    rsd = bool((k // 2) % 2)
    origin = None if (k // 4) % 3 else (np.array([-990.0, -830.0, -1100.0]) if (k // 12) % 2 == 0 else np.array([0.0, 0.0, 0.0]))  # distinct components; an observer at the coordinate origin is a valid light-cone origin too
    params = dict(z=0.5, velz2kms=float(rng.uniform(50, 200)), Lbox=lbox, origin=origin, Mpart=2.1e9, chunk=-1)
    # plant decisive randoms
    etr = hodref.evolved(tracers, params['z'])
    ce = ref.cent_markers(halo, etr)
    nplant = plant(rng, halo['hrandoms'], ce)
    edge_hosts = 0
    if rsd and origin is None and H >= 17 and k % 2 == 0:
        # redshift-space shift landing exactly on +-L/2: velz2kms a power of two makes the shift exact
        params['velz2kms'] = 128.0
        for j, (z0, vz) in enumerate([(lbox / 2 - 1.0, 128.0), (-lbox / 2 + 1.0, -128.0), (lbox / 2 - 2.0, 256.0), (-lbox / 2, 0.0), (lbox / 2 - 0.5, 64.0), (lbox / 2 - 1.0, 127.0)]):
            i = j * 2
            halo['hpos'][i, 2] = z0
            halo['hvel'][i, 2] = vz
            halo['hveldev'][i, 2] = 0.0
            halo['hmass'][i] = 1e15
            halo['hmultis'][i] = 1.0
            halo['hrandoms'][i] = 0.0
            sel = np.nonzero(part['pinds'] == i)[0]
            part['phvel'][sel] = halo['hvel'][i]
            part['phmass'][sel] = 1e15
            for pidx in sel[:2]:
                part['ppos'][pidx, 2] = z0
                part['pvel'][pidx, 2] = vz
                part['prandoms'][pidx] = 0.0
            edge_hosts += 1
        ce = ref.cent_markers(halo, etr)
    keepc, _ = hodref.decide(halo['hrandoms'], ce)
    if P:
        se = ref.sat_markers(part, etr, enable_ranks, keepc[part['pinds']])
        keep0 = part['prandoms'] == 0.0
        nplant += plant(rng, part['prandoms'], se)
        part['prandoms'][keep0 & (se[1] > 1e-12)] = 0.0
    return dict(halo=halo, part=part, tracers=tracers, params=params, enable_ranks=enable_ranks, rsd=rsd, nplant=nplant, desc=dict(case=k, H=H, P=P, rsd_edge_hosts=edge_hosts, tracers=list(tracers), enable_ranks=enable_ranks, rsd=rsd, origin=None if origin is None else origin.tolist(), Lbox=lbox, env=bool(k % 4)))


def run_real(GH, case, Nthread, tracers=None, rsd=None):
    with warnings.catch_warnings():
        warnings.simplefilter('ignore')
        return GH.gen_gal_cat(case['halo'], case['part'], tracers if tracers is not None else case['tracers'], case['params'], Nthread=Nthread, enable_ranks=case['enable_ranks'], rsd=case['rsd'] if rsd is None else rsd, verbose=False)


def compare_catalog(run, got, exp, desc, lbox, key_prefix='hod'):
    for t, E in exp.items():
        G = got[t]
        if 'Ncent' not in G:
            return run.violation(f'{key_prefix}-ncent-missing', dict(tracer=t, keys=sorted(G), **desc))
        if int(G['Ncent']) != E['Ncent']:
            return run.violation(f'{key_prefix}-ncent', dict(tracer=t, Ncent=int(G['Ncent']), expected=E['Ncent'], **desc))
        if len(G['id']) != len(E['id']):
            return run.violation(f'{key_prefix}-count', dict(tracer=t, galaxies=len(G['id']), expected=len(E['id']), **desc))
        run.count('galaxy_rows_compared', len(E['id']))
        for col in ('id', 'mass', 'x', 'y', 'z', 'vx', 'vy', 'vz'):
            g, e = np.asarray(G[col]), E[col]
            if col in ('id', 'mass'):
                ok = g == e
            else:
                scale = lbox if col in 'xyz' else np.maximum(np.abs(e), 1.0)
                ok = np.abs(g - e) <= 1e-11 * scale
            if g.dtype.itemsize >= 4 and core.poison_count(g):
                return run.violation(f'{key_prefix}-unwritten-row', dict(tracer=t, column=col, rows=core.poison_count(g), **desc))
            if not ok.all():
                i = int(np.nonzero(~ok)[0][0])
                part = 'central' if i < E['Ncent'] else 'satellite'
                return run.violation(f'{key_prefix}-row-{col}', dict(tracer=t, row=i, which=part, got=float(g[i]), expected=float(e[i]), nbad=int((~ok).sum()), **desc))
    return False


def check(run):
    from abacusnbody.hod import GRAND_HOD as GH

    ref = hodref.Reference(GH)
    rng = run.rng(0)
    ncase = 60 if run.quick else 2000
    nequal = 6 if run.quick else 100
    for k in range(ncase + nequal):
        if k >= ncase:
            case = make_case(rng, ref, k, equal_mass_neighbours=True)
            case['desc']['family'] = 'equal-mass neighbours'
        else:
            case = make_case(rng, ref, k, sizes=[0, 1, 2, 17, 300, 1003] if run.quick else None)
        desc = case['desc']
        Nthread = int(rng.choice([1, 2, 3, 7, 16]))
        desc['Nthread'] = Nthread
        run.progress(desc)
        run.ev()
        if k % 5 == 3 and case['desc']['H']:
            # halo ids as the simulation writes them: 64-bit integers far above 2^53, not multiples of anything
            big = (np.int64(1) << np.int64(60)) + np.int64(1)
            case['halo']['hid'] = case['halo']['hid'] + big
            case['part']['phid'] = case['part']['phid'] + big
            desc['ids'] = 'above 2^60, odd'
            run.count('cases_with_ids_above_2^53')
        if k % 3 != 0 and case['desc']['H']:
            # an unrelated request on the very same tables just before (other thresholds, other flags, other thread count):
            # whatever it leaves behind must not reach the request that is checked
            # (the decoy switches every optional term on, whether or not the checked request mentions it)
            decoy = {t: dict(p, logM_cut=p['logM_cut'] + 0.37, logM1=p['logM1'] - 0.21, ic=[1.0, 0.6][k % 2], Acent=0.31, Asat=-0.27, Bcent=-0.22, Bsat=0.19, **(dict(Ccent=0.17, Csat=-0.13) if t == 'ELG' else {})) for t, p in case['tracers'].items()}
            run_real(GH, case, 1 + (k % 16), tracers=decoy, rsd=not case['rsd'])
            run.count('decoy_requests_before_the_checked_one')
        core.poison_prime()
        got = run_real(GH, case, Nthread)
        exp, info = hodref.reference_catalog(ref, case['halo'], case['part'], case['tracers'], case['params'], case['enable_ranks'], case['rsd'])
        ngal = sum(len(e['id']) for e in exp.values())
        if ngal >= 2 and case['nplant'] >= 1:
            run.nt(k)
        if k < 3:
            run.sample(dict(desc, galaxies={t: len(e['id']) for t, e in exp.items()}, planted_decisive_randoms=case['nplant']))
        if info['ambc'].any() or info['ambs'].any():
            run.count('cases_with_ambiguous_randoms_skipped')
            continue
        if compare_catalog(run, got, exp, desc, case['params']['Lbox']):
            if run.too_many():
                return
            continue
        # --- derived relations
        # at most one central per host across tracers
        allc = np.concatenate([np.asarray(got[t]['id'])[: got[t]['Ncent']] for t in got]) if got else np.zeros(0)
        if len(np.unique(allc)) != len(allc):
            run.violation('hod-host-with-two-centrals', desc)
        # tracer-subset invariance: a tracer's catalogue depends only on the enabled tracers up to it
        if len(case['tracers']) >= 2 and k % 3 == 0:
            names = [t for t in hodref.TR if t in case['tracers']]
            sub = {t: case['tracers'][t] for t in names[:-1]}
            got2 = run_real(GH, case, Nthread, tracers=sub)
            run.ev()
            run.count('subset_invariance_checks')
            for t in sub:
                for col in ('id', 'x', 'z', 'vz', 'mass'):
                    if not np.array_equal(np.asarray(got2[t][col]), np.asarray(got[t][col])):
                        run.violation('hod-later-tracer-changes-earlier', dict(tracer=t, column=col, removed=names[-1], **desc))
                        break
        # rsd moves only the line-of-sight coordinate
        if case['rsd'] and k % 2 == 0:
            got0 = run_real(GH, case, Nthread, rsd=False)
            run.ev()
            run.count('rsd_los_checks')
            inv = 1.0 / case['params']['velz2kms']
            L = case['params']['Lbox']
            for t in got:
                G, G0 = got[t], got0[t]
                for col in ('id', 'mass', 'vx', 'vy', 'vz') + (('x', 'y') if case['params']['origin'] is None else ()):
                    if not np.array_equal(np.asarray(G[col]), np.asarray(G0[col])):
                        run.violation('hod-rsd-changes-non-los', dict(tracer=t, column=col, **desc))
                        break
                if case['params']['origin'] is None and len(G['z']):
                    ez = hodref.wrap(np.asarray(G0['z']) + np.asarray(G0['vz']) * inv, L)
                    if not (np.abs(np.asarray(G['z']) - ez) <= 1e-11 * L).all():
                        run.violation('hod-rsd-shift', dict(tracer=t, **desc))
                    if ((np.asarray(G['z']) < -L / 2) | (np.asarray(G['z']) >= L / 2)).any():
                        # positions generated inside [-L/2, L/2); |shift| < L: must land in [-L/2, L/2)
                        run.violation('hod-rsd-not-wrapped', dict(tracer=t, zmin=float(np.min(G['z'])), zmax=float(np.max(G['z'])), L=L, **desc))
        # nestedness in ic (single scaling of every tracer's ic)
        if k % 5 == 0 and len(case['halo']['hmass']) > 1:
            prev = None
            for f in (0.2, 0.5, 0.9, 1.0):
                tr = {t: dict(p, ic=p.get('ic', 1.0) * f) for t, p in case['tracers'].items()}
                # with several tracers only the union of hosts with any galaxy is nested; conformity off for this test
                for t in tr:
                    for kk in ('logM1_EE', 'alpha_EE', 'logM1_EL', 'alpha_EL'):
                        tr[t].pop(kk, None)
                g = run_real(GH, case, Nthread, tracers=tr, rsd=False)
                run.ev()
                cur_c = set(np.concatenate([np.asarray(g[t]['id'])[: g[t]['Ncent']] for t in g]).tolist())
                cur_s = set(map(tuple, np.concatenate([np.stack([np.asarray(g[t]['x'])[g[t]['Ncent'] :], np.asarray(g[t]['y'])[g[t]['Ncent'] :]], axis=1) for t in g]).tolist()))
                # ELG satellite widths depend on which central the host carries (conformity branch of the package's
                # rule, which also drops the shear term), and that changes with ic: only centrals are nested then
                sat_nested = 'ELG' not in tr
                if prev is not None and not (prev[0] <= cur_c and (prev[1] <= cur_s or not sat_nested)):
                    run.violation('hod-selection-not-nested-in-ic', dict(ic_factor=f, **desc))
                    break
                prev = (cur_c, cur_s)
            run.count('nestedness_checks')
        if run.too_many():
            return
    end_to_end(run, GH, ref)
    if not run.too_many():
        call_history(run, GH, ref)


def end_to_end(run, GH, ref):
    """AbacusHOD(...).run_hod(...) on staged synthetic subsample directories: the plumbing between staging
    (C12) and the kernels (unit of velz2kms, enable_ranks, origin, tracer dictionaries)."""
    import logging
    import shutil

    from abacusnbody.hod import abacus_hod as AH

    from . import c12

    rng = run.rng(77)
    for k in range(6 if run.quick else 60):
        nslab = int(rng.integers(1, 4))
        flags = dict(want_AB=bool(k % 2), want_shear=bool((k // 2) % 2), want_ranks=bool(k % 3 == 0), want_expvel=False)
        sub = SUBSETS[(k * 3 + 2) % 7]
        mt = any(t in sub for t in ('ELG', 'QSO'))
        lc = k % 5 == 3  # halo light-cone catalogue: the observer position comes from the header and RSD is along the line of sight
        to_disk = k % 4 == 1
        reseed = (1234 + k) if k % 4 == 2 else None
        if lc:
            nslab = 1
        truth = c12.make_dir(rng, nslab, ['interleaved', 'random', 'increasing'][k % 3], flags['want_ranks'], mt, [int(rng.integers(30, 200)) for _ in range(nslab)], physical=True, lc=lc)
        try:
            tracers = hodref.gen_tracers(rng, sub, fancy=bool(k % 2))
            sim_params = dict(sim_name=truth['sim'], sim_dir=truth['sim_dir'], subsample_dir=truth['subsample_dir'], z_mock=0.5, output_dir=truth['out'])
            HOD = dict(tracer_flags={t: (t in sub) for t in hodref.TR}, want_rsd=True, **{t + '_params': tracers.get(t, {}) for t in hodref.TR}, **flags)
            if lc:
                sim_params['halo_lc'] = True
            desc = dict(end_to_end=True, case=k, nslab=nslab, tracers=list(sub), light_cone=lc, write_to_disk=to_disk, reseed=reseed, **flags)
            run.progress(desc)
            logging.disable(logging.CRITICAL)
            try:
                with warnings.catch_warnings():
                    warnings.simplefilter('ignore')
                    with c12.stub_histogram(AH):
                        obj = AH.AbacusHOD(sim_params, HOD)
                    nt = int(rng.choice([1, 4, 16]))
                    got = obj.run_hod(tracers=tracers, want_rsd=bool(k % 2), Nthread=nt, write_to_disk=to_disk, reseed=reseed, **(dict(fn_ext='_v%d' % k) if to_disk and k % 8 == 5 else {}))
            finally:
                logging.disable(logging.NOTSET)
            run.ev()
            # parameters the constructor must hand to the kernels
            origin_ok = (obj.params['origin'] is None) if not lc else (obj.params['origin'] is not None and np.array_equal(np.asarray(obj.params['origin'], dtype=float), [-990.0, -990.0, -990.0]))
            if abs(obj.params['velz2kms'] - 1.3e5 / 2000.0) > 1e-9 or obj.params['Lbox'] != 2000.0 or not origin_ok:
                run.violation('hod-e2e-params', dict(params={k2: repr(v) for k2, v in obj.params.items()}, **desc))
            # the staged per-halo inputs are those the files record for that halo id (what the occupation is then computed from)
            hid_ = np.asarray(obj.halo_data['hid'])
            src_cols = {'hdeltac': ((hid_ * 7) % 100) / 100.0 - 0.5, 'hfenv': ((hid_ * 13) % 100) / 100.0 - 0.5, 'hshear': ((hid_ * 29) % 100) / 100.0 - 0.5, 'hmultis': 1.0 + (hid_ % 3) * 0.5}
            for cn, ev in src_cols.items():
                if cn in obj.halo_data and not np.allclose(np.asarray(obj.halo_data[cn], dtype=np.float64), ev, rtol=0, atol=1e-6):
                    run.violation('hod-e2e-staged-input-not-of-this-halo', dict(column=cn, **desc))
                    break
            exp, info = hodref.reference_catalog(ref, obj.halo_data, obj.particle_data, tracers, obj.params, flags['want_ranks'], bool(k % 2))
            if info['ambc'].any() or info['ambs'].any():
                run.count('cases_with_ambiguous_randoms_skipped')
                continue
            ngal = sum(len(e['id']) for e in exp.values())
            if ngal >= 2:
                run.nt(('e2e', k))
            run.count('end_to_end_cases')
            run.count('end_to_end_galaxies', ngal)
            compare_catalog(run, got, exp, dict(desc, Nthread=nt), 2000.0, key_prefix='hod-e2e')
            if to_disk:
                # the catalogue written for downstream tools is the catalogue returned
                from astropy.io import ascii as _ascii

                outdir = os.path.join(str(obj.mock_dir), 'galaxies' + ('_rsd' if k % 2 else '') + ('_v%d' % k if k % 8 == 5 else ''))
                for t in got:
                    fn = os.path.join(outdir, f'{t}s.dat')
                    run.count('catalogue_files_read_back')
                    if not os.path.exists(fn):
                        run.violation('hod-e2e-file-missing', dict(file=os.path.relpath(fn, truth['root']), **desc))
                        continue
                    tab = _ascii.read(fn, format='ecsv')
                    for c in ('x', 'y', 'z', 'vx', 'vy', 'vz', 'mass', 'id'):
                        if c not in tab.colnames or not np.array_equal(np.asarray(tab[c]), np.asarray(got[t][c])):
                            run.violation('hod-e2e-file-differs-from-returned', dict(tracer=t, column=c, rows_file=len(tab), rows_returned=len(got[t]['x']), **desc))
                            break
                    ncent_ret = exp[t]['Ncent'] if 'Ncent' in exp[t] else None
                    if ncent_ret is not None and int(tab.meta.get('Ncent', -1)) != int(ncent_ret):
                        run.violation('hod-e2e-file-differs-from-returned', dict(tracer=t, column='Ncent (meta)', file=int(tab.meta.get('Ncent', -1)), expected=int(ncent_ret), **desc))
        finally:
            shutil.rmtree(truth['root'], ignore_errors=True)


def call_history(run, GH, ref):
    """Several requests in a row in one process, each differing from the previous one in ONE respect, most of them outside
    the tracers' HOD dicts (params['z'] with z-evolving thresholds, the tables, rsd / enable_ranks / origin / velz2kms / Nthread),
    some inside (a value edited in place in the very dict object passed before; equal-valued fresh dicts; a tracer dropped and
    re-added).  Every request must follow the rule for ITS inputs: each output is compared with the reference computed afresh from a
    pristine copy of that request's inputs, so anything a previous request left behind (parsed parameters, thresholds, buffers, edits to
    the caller's dicts) shows as a wrong row."""
    import copy

    rng = run.rng(10)
    nseq = 8 if run.quick else 150
    zgrid = [0.1, 0.3, 0.5, 0.8, 1.1, 1.4, 2.0]
    for s in range(nseq):
        lbox = float(rng.choice([500.0, 2000.0, 250.5]))
        H, P = [300, 120, 1003][s % 3], [2000, 600, 5000][(s // 2) % 3]
        tabs = [hodref.gen_tables(rng, H, P, lbox=lbox, with_env=True), hodref.gen_tables(rng, max(H // 2, 1), P // 2, lbox=lbox, with_env=True)]
        sub = SUBSETS[(s * 3 + 6) % 7]  # all three tracers first
        live = hodref.gen_tracers(rng, sub, fancy=[True, 'sparse'][s % 2])
        for tname, t in live.items():
            # every tracer's thresholds evolve with redshift, by up to ~1.5 dex over the redshifts requested
            t.update(z_pivot=float(rng.choice([0.8, 0.2, 0.5])), logM_cut_pr=float(rng.uniform(0.5, 3.0) * rng.choice([-1, 1])), logM1_pr=float(rng.uniform(0.5, 3.0) * rng.choice([-1, 1])))
            if tname == 'ELG' and s % 4 < 2:
                for key in ('logM1_EE', 'logM1_EL'):  # conformity masses left to their default = the evolved logM1 of this request
                    t.pop(key, None)
        pristine = copy.deepcopy(live)
        zs = [float(z) for z in rng.choice(zgrid, 3, replace=False)]
        st = dict(tab=0, z=zs[0], velz2kms=float(rng.uniform(50, 200)), origin=None, rsd=bool(s % 2), enable_ranks=bool((s // 2) % 2), Nthread=int(rng.choice([1, 2, 3, 7, 16])), names=list(live), fresh=False)
        first = dict(st)
        # decisive randoms for the second redshift on the first tables
        etr = hodref.evolved(pristine, zs[1])
        ce = ref.cent_markers(tabs[0][0], etr)
        nplant = plant(rng, tabs[0][0]['hrandoms'], ce)
        keepc, _ = hodref.decide(tabs[0][0]['hrandoms'], ce)
        nplant += plant(rng, tabs[0][1]['prandoms'], ref.sat_markers(tabs[0][1], etr, st['enable_ranks'], keepc[tabs[0][1]['pinds']]))
        for r in (tabs[0][0]['hrandoms'], tabs[0][1]['prandoms']):
            # a random of exactly 0 is only decisive while the first slice is non-empty; here tracers come and go, so none are kept (the single-request cases have them)
            r[r == 0.0] = rng.random(int((r == 0.0).sum())) * 0.5 + 0.25
        steps = ['other z', 'other z', 'other tables', 'equal fresh dicts, other z', 'value edited in place', 'tracer dropped', 'flags toggled']
        steps = ['first'] + [steps[i] for i in rng.permutation(len(steps))][: 5 + s % 3] + ['first request again']
        edited = None
        outcomes = []
        for j, step in enumerate(steps):
            if edited is not None:
                # the edit lasts for one request; the same objects are restored in place
                t, key, old = edited
                live[t][key] = pristine[t][key] = old
                edited = None
            st['names'] = list(live)
            st['fresh'] = False
            if step == 'other z':
                st['z'] = zs[1] if st['z'] != zs[1] else zs[2 * int(rng.integers(0, 2))]
            elif step == 'other tables':
                st['tab'] = 1 - st['tab']
            elif step == 'equal fresh dicts, other z':
                st['fresh'] = True
                st['z'] = zs[2] if st['z'] != zs[2] else zs[0]
            elif step == 'value edited in place':
                t = str(rng.choice(list(live)))
                key = str(rng.choice(['logM_cut', 'logM1', 'sigma', 'alpha_s', 'logM_cut_pr', 'z_pivot']))
                edited = (t, key, live[t][key])
                live[t][key] = pristine[t][key] = live[t][key] + {'sigma': 0.2, 'alpha_s': -0.3, 'logM_cut_pr': -1.1, 'z_pivot': 0.6}.get(key, 0.4)
            elif step == 'tracer dropped':
                names = list(live)
                st['names'] = names if len(names) == 1 else [n for n in names if n != names[int(rng.integers(0, len(names)))]]
            elif step == 'flags toggled':
                st.update(rsd=not st['rsd'], enable_ranks=bool(rng.integers(0, 2)), Nthread=int(rng.choice([1, 2, 3, 7, 16])), velz2kms=float(rng.uniform(50, 200)),
                          origin=None if st['origin'] is not None else np.array([-990.0, -830.0, -1100.0]))
            elif step == 'first request again':
                st = dict(first)
            halo, part = tabs[st['tab']]
            params = dict(z=st['z'], velz2kms=st['velz2kms'], Lbox=lbox, origin=st['origin'], Mpart=2.1e9, chunk=-1)
            passed = {n: (dict(live[n]) if st['fresh'] else live[n]) for n in st['names']}
            want = {n: copy.deepcopy(pristine[n]) for n in st['names']}
            desc = dict(family='call history', sequence=s, request=j, step=step, history=steps[:j], z=st['z'], tables=st['tab'], H=len(halo['hmass']), P=len(part['pinds']), tracers=st['names'], rsd=st['rsd'],
                        enable_ranks=st['enable_ranks'], origin=None if st['origin'] is None else st['origin'].tolist(), Nthread=st['Nthread'], Lbox=lbox)
            run.progress(desc)
            run.ev()
            core.poison_prime()
            with warnings.catch_warnings():
                warnings.simplefilter('ignore')
                got = GH.gen_gal_cat(halo, part, passed, params, Nthread=st['Nthread'], enable_ranks=st['enable_ranks'], rsd=st['rsd'], verbose=False)
            run.count('call_history_requests')
            exp, info = hodref.reference_catalog(ref, halo, part, want, params, st['enable_ranks'], st['rsd'])
            if info['ambc'].any() or info['ambs'].any():
                run.count('cases_with_ambiguous_randoms_skipped')
                continue
            outcomes.append((st['tab'], tuple(st['names']), tuple(tuple(exp[n]['id'].tolist()) for n in st['names'])))
            if compare_catalog(run, got, exp, desc, lbox, key_prefix='hod-call-history'):
                break
        # non-trivial: the requests of the sequence really call for different catalogues (>= 3 distinct expected ones, galaxies in them)
        if len(set(outcomes)) >= 3 and nplant >= 1 and max((sum(len(i) for i in o[2]) for o in outcomes), default=0) >= 2:
            run.nt(('history', s))
        run.count('call_history_sequences')
        if run.too_many():
            return


def replay(run, data):
    check(run)
