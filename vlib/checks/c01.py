"""C01 — each halo row indexes exactly its own subsample particles.

Unique-identity workload: every raw particle word of the generated trees carries its serial number
and origin (slab, A/B, original/merged) in its own bits; the oracle rebuilds each halo's expected
particle list from the ground truth and compares every loaded subsample column element-wise with
the reference decoding, plus the structural invariants of the index columns and a poison scan."""

import os
import shutil

import numpy as np

from .. import catoracle, core, gen_catalog

LEVEL = 'exploration'
RULE = (
    'generated trees (1-6 superslabs incl. non-contiguous indices, 0..n halos per slab, L0 gaps, zero-particle halos, cleaned-away halos, merged ranges with gaps, '
    'trailing unindexed particles, none/zlib/blsc compression) x loader options (cleaned on/off; A, B, A+B, True; subsets of pos/vel/pid and rv; unpack_bits False/True/single/subsets/packedpid; '
    'passthrough rvint/packedpid; path as redshift dir / halo_info dir / single file / file list subset+permuted; field subsets with and without index columns; light-cone layout). '
    'A case = one load whose every halo slice and every subsample column is compared. non-trivial = distinct (tree, configuration) where the tree has >=2 superslabs, an L0 gap, '
    'a cleaned-away halo and a merged range'
)
RULE += (
    ' Added after seeded round 9: light-cone trees whose halo rows are not in particle-file order, loaded through four filters; header ppd stored as NP**(1/3.) in every third tree.'
)
RULE += (
    ' Added after seeded round 10: call history -- catalogues loaded EARLIER and kept alive are re-verified after LATER loads (first loads of every tree re-verified at the end of the tree and again after the next tree; '
    'dedicated sequences with equal halo-row count and subsample letter but different offsets: A+B then B only, cleaned then uncleaned, the same call twice, another simulation with equal halo counts, '
    'two filters keeping equally many rows, single files): index columns and every subsample column against a private snapshot, then the full oracle again.'
)
RULE += (
    ' Added after seeded round 11: state left behind by a FAILED or REJECTED call -- on catalogue X a load that the real code legitimately rejects (a subsample / cleaned_rvpid file of one superslab missing or truncated, '
    'an unknown field name, an unknown unpack_bits name, a filter_func that raises on a later superslab, passthrough without cleaning), followed in the same process by perfectly valid loads (cleaned and uncleaned, with subsamples, '
    'merged particles present) of a DIFFERENT catalogue Y sharing superslab numbers and file names with X, and of the repaired X: each later valid load goes through the full oracle, and catalogues returned before the rejected call are re-verified.'
)
ASSUMPTIONS = [
    'float32 pos/vel within 1 ulp of the reference decoding; integer fields exact; lagr_pos within 4 ulp(BoxSize)',
    'a load that raises yields no catalogue: recorded under load_errors (C02/C03 own "must not fail"); fewer than 80% successful loads makes the run inconclusive',
    'python-blosc is replaced by a zlib-based stand-in for blsc-compressed inputs',
    'a catalogue object the caller keeps and does not modify is still "a loaded catalog": later loads (of anything) must leave its index columns and subsample table as they were when it was returned and verified',
]

PIDF = ['pid', 'lagr_pos', 'tagged', 'density', 'lagr_idx', 'packedpid']
QUICK = [True]


def tree_knobs(rng, k):
    nslab = int(rng.integers(1, 7))
    inds = sorted(int(x) for x in rng.choice(np.arange(0, 40), nslab, replace=False)) if k % 3 == 0 else list(range(nslab))
    hps = [int(rng.integers(0, 25)) for _ in inds]
    if k % 5 == 1 and nslab > 1:
        hps[int(rng.integers(0, nslab))] = 0  # an empty superslab
    if k % 11 == 7:
        hps = [0] * nslab
    if k % 7 == 3:
        # superslab numbers of four digits whose last three digits name a superslab that is also present (same halo count, or not)
        alias = [1000 + inds[0]] + ([2000 + inds[-1]] if k % 14 == 3 else [])
        hps = hps + [hps[0] if k % 2 else int(rng.integers(1, 25))] + ([hps[-1]] if k % 14 == 3 else [])
        inds = inds + alias
    return dict(
        giant=(70000 if k % 8 == 5 else None),
        blsc_block=[None, 32, 4096][k % 3],
        slab_inds=inds,
        halos_per_slab=hps,
        box=float(rng.choice([1.0, 500.0, 2000.0])),
        velz=float(rng.choice([37.0, 1234.5, 9.1e4])),
        ppd=int(rng.choice([1, 64, 6912])),
        ppd_form=('cube-root' if k % 3 == 1 else None),  # header ppd = NP**(1/3.), e.g. 63.99999999999999
        nprev=int(rng.integers(1, 4)),
        compression=[None, None, 'zlib', 'blsc'][k % 4],
        gap_prob=float(rng.choice([0.0, 0.5, 1.0])),
        zero_part_prob=float(rng.choice([0.0, 0.2, 0.6])),
        cleaned_away_prob=float(rng.choice([0.0, 0.2, 0.5])),
        merge_prob=float(rng.choice([0.0, 0.4, 1.0])),
        trailing=bool(k % 2),
        clean_layout=[1, 2, 3, 4][(k // 2) % 4],
    )


def nontrivial_tree(truth):
    ns = sum(1 for s in truth['slabs'].values() if s['H'] > 0)
    gap = away = merged = False
    for S in truth['slabs'].values():
        for ab in 'AB':
            st, n = S['raw'][f'npstart{ab}'].astype(np.int64), S['raw'][f'npout{ab}'].astype(np.int64)
            if len(st) and ((st[1:] - (st[:-1] + n[:-1])) > 0).any() or (len(st) and st[0] > 0):
                gap = True
            if (S['clean'][f'npout{ab}_merge'] > 0).any():
                merged = True
        if S['cleaned_away'].any():
            away = True
    return ns >= 2 and gap and away and merged


def make_config(rng, truth, k):
    cleaned = bool(k % 2)
    passthrough = cleaned and (k % 9 == 4)
    AB = [dict(A=True), dict(B=True), dict(A=True, B=True), 'true'][int(rng.integers(0, 4))]
    if AB == dict(A=True, B=True) and k % 2:
        AB = dict(B=True, A=True)  # the order of the keys in the caller's dict carries no meaning: A is still laid out before B
    if passthrough:
        sub = dict(A=True, B=True) if AB == 'true' else dict(AB)
        which = [['rvint'], ['packedpid'], ['rvint', 'packedpid']][int(rng.integers(0, 3))]
        for w in which:
            sub[w] = True
        if AB == 'true' and k % 2 == 1 and (k // 1000) % 2 == 0:
            sub = True  # "everything": both subsamples, raw rvint and packedpid
        unpack_bits = False
        fields = 'all'
    else:
        if AB == 'true' and rng.random() < 0.5:
            sub = True
        else:
            sub = dict(A=True, B=True) if AB == 'true' else dict(AB)
            c = int(rng.integers(0, 9))
            if (k // 7) % 5 == 3:
                c = 9 + (k // 1000 + k) % 4  # the documented defaults and opt-outs
            if c == 9:
                sub['pos'] = False  # -> velocities only
            elif c == 10:
                sub['vel'] = False  # -> positions only
            elif c == 11:
                sub.update(pos=False, vel=False)  # nothing left: documented fallback to rv
            elif c == 12:
                sub = dict(pid=True) if k % 2 else dict(pos=True, pid=True)  # neither A nor B named: subsample A is assumed
            elif c == 0:
                sub['rv'] = True
            elif c == 1:
                sub.update(rv=True, pid=True)
            elif c == 2:
                pass  # defaults: pos+vel
            else:
                sel = [['pos'], ['vel', 'pid'], ['pid'], ['pos', 'vel', 'pid']][int(rng.integers(0, 4))] if QUICK[0] else ([f for f in ('pos', 'vel', 'pid') if rng.random() < 0.55] or ['pid'])
                for f in sel:
                    sub[f] = True
        ubs = [False, True, 'packedpid', 'density', ['pid', 'lagr_idx'], ['lagr_pos', 'tagged']]
        if not QUICK[0]:
            ubs += [PIDF[int(rng.integers(0, 6))], [f for f in PIDF if rng.random() < 0.5] or ['density']]
        unpack_bits = ubs[int(rng.integers(0, len(ubs)))]
        fsel = int(rng.integers(0, 5))
        if fsel == 0:
            fields = 'DEFAULT_FIELDS'
        elif fsel == 1:
            fields = 'all'
        elif fsel == 2:
            fields = ['N', 'x_com', 'npstartA', 'npoutA', 'npstartB', 'npoutB']
        elif fsel == 3:
            fields = ['id', 'r50_L2com']  # no index columns requested
        else:
            fields = ['npoutB', 'v_com', 'N']
    # path style
    inds = truth['slab_inds']
    ps = int(rng.integers(0, 5))
    if ps == 0:
        path, slabs, pstyle = truth['path'], list(inds), 'zdir'
    elif ps == 1:
        path, slabs, pstyle = os.path.join(truth['path'], 'halo_info'), list(inds), 'halo_info_dir'
    elif ps == 2:
        s = inds[int(rng.integers(0, len(inds)))]
        path, slabs, pstyle = os.path.join(truth['path'], 'halo_info', f'halo_info_{s:03d}.asdf'), [s], 'single_file'
    else:
        n = int(rng.integers(1, len(inds) + 1))
        slabs = [int(x) for x in rng.choice(inds, n, replace=False)]
        if ps == 3:
            slabs = sorted(slabs)
        path = [os.path.join(truth['path'], 'halo_info', f'halo_info_{s:03d}.asdf') for s in slabs]
        pstyle = 'file_list_sorted' if ps == 3 else 'file_list_permuted'
    kw = dict(cleaned=cleaned, subsamples=sub, unpack_bits=unpack_bits, fields=fields)
    if passthrough:
        kw['passthrough'] = True
    return path, slabs, kw, pstyle


def resolved_AB(sub):
    if sub is True:
        return ['A', 'B']
    ab = [k for k in 'AB' if sub.get(k)]
    return ab or ['A']


class Kept:
    """An earlier catalogue, kept alive by the caller, with a private copy of everything the statement speaks about
    (index columns, subsample columns, the two table lengths), taken right after the full oracle accepted it."""

    MAXBYTES = 64 << 20

    def __init__(self, cat, desc, recheck=None):
        self.cat, self.desc, self.recheck = cat, desc, recheck
        self.nh, self.ns = len(cat.halos), len(cat.subsamples)
        self.index = {c: np.array(cat.halos[c], copy=True) for c in cat.halos.colnames if c.startswith(('npstart', 'npout'))}
        self.sub = {c: np.array(cat.subsamples[c], copy=True) for c in cat.subsamples.colnames}
        self.nbytes = sum(a.nbytes for a in self.index.values()) + sum(a.nbytes for a in self.sub.values())
        self.later = []

    @classmethod
    def take(cls, cat, desc, recheck=None):
        k = cls(cat, desc, recheck)
        return k if k.nbytes <= cls.MAXBYTES else None

    def reverify(self, run, full=False):
        """True if a violation was raised.  Reference = the snapshot (values the full oracle accepted); a subsample value that
        differs from the snapshot is handed to the full oracle, which allows the documented tolerance."""
        cat = self.cat
        run.ev()
        run.count('earlier_catalogues_reverified')
        run.count('later_loads_between_load_and_reverification', len(self.later))
        wit = dict(earlier_load=self.desc, later_loads=len(self.later), last_later_load=(self.later[-1] if self.later else None))
        if len(cat.halos) != self.nh or len(cat.subsamples) != self.ns:
            return run.violation('earlier-catalogue-changed-by-later-load', dict(what='table length', halos=[self.nh, len(cat.halos)], subsamples=[self.ns, len(cat.subsamples)], **wit))
        for c, was in self.index.items():
            now = np.asarray(cat.halos[c]) if c in cat.halos.colnames else None
            if now is None or not catoracle.eq_nan(now, was):
                w = dict(what='index column', column=c, **wit)
                if now is not None and now.shape == was.shape:
                    i = int(np.nonzero(now != was)[0][0])
                    w.update(row=i, was=int(was[i]), now=int(now[i]), rows_changed=int((now != was).sum()))
                return run.violation('earlier-catalogue-changed-by-later-load', w)
        changed = [c for c, was in self.sub.items() if c not in cat.subsamples.colnames or not catoracle.eq_nan(np.asarray(cat.subsamples[c]), was)]
        changed += [c for c in cat.subsamples.colnames if c not in self.sub]
        if changed:
            run.count('earlier_catalogue_subsample_values_differ_from_snapshot')
            if self.recheck is None or not self.recheck(self.cat):
                # (no oracle at hand, or the new values are also within the tolerance: still, nobody but a later load touched them)
                return run.violation('earlier-catalogue-changed-by-later-load', dict(what='subsample column', columns=changed, **wit))
            return True
        if full and self.recheck is not None:
            run.count('earlier_catalogues_reverified_by_full_oracle')
            return bool(self.recheck(self.cat))
        return False


def reverify_all(run, kept, full=False):
    for kp in kept:
        if kp.later:
            kp.reverify(run, full=full)


def one_tree(run, rng, k, nconf, carry=None):
    knobs = tree_knobs(rng, k)
    truth = gen_catalog.make_tree(rng, **knobs)
    kept = []
    try:
        nt = nontrivial_tree(truth)
        for c in range(nconf):
            path, slabs, kw, pstyle = make_config(rng, truth, k * 1000 + c)
            desc = dict(tree=k, slab_inds=knobs['slab_inds'], halos_per_slab=knobs['halos_per_slab'], compression=knobs['compression'], clean_layout=knobs['clean_layout'], path_style=pstyle, slabs_loaded=slabs, **{a: (b if not isinstance(b, dict) else dict(b)) for a, b in kw.items()})
            masks = None
            if c % 4 == 3 and not kw.get('passthrough'):
                # a filter function delivering predetermined per-superslab masks (re-indexing after compaction)
                from .c03 import MaskFilter

                masks = [rng.random(truth['slabs'][s]['H']) < [0.0, 0.5, 0.9, 1.0][int(rng.integers(0, 4))] for s in slabs]
                kw['filter_func'] = MaskFilter(masks)
                desc['filter_kept'] = [int(m.sum()) for m in masks]
            run.progress(desc)
            run.ev()
            cat, err = catoracle.load(path, **kw)
            run.count('loads')
            for kp in kept + (carry or []):
                kp.later.append(desc)
            if err is not None:
                run.count('load_errors')
                run.violation('subsample-load-fails', dict(error=f'{type(err).__name__}: {err}'[:200], **desc))  # every generated configuration is a documented one
                continue
            run.count('loads_ok')
            if nt:
                run.nt((k, c))
            if k < 2 and c < 2:
                run.sample(desc)
            # which of pos / vel come back follows the documented defaults of the subsample dict
            sb = kw['subsamples']
            if not kw.get('passthrough'):
                if sb is True or sb.get('rv'):
                    want_pv = {'pos', 'vel'}
                else:
                    want_pv = {f for f in ('pos', 'vel') if sb.get(f)}
                    if not want_pv and not sb.get('pid'):
                        want_pv = {f for f in ('pos', 'vel') if sb.get(f) is not False} or {'pos', 'vel'}
                got_pv = {f for f in ('pos', 'vel') if f in cat.subsamples.colnames}
                run.count('documented_pos_vel_selection_' + ('followed' if got_pv == want_pv else 'not_followed'))  # informational: the statement is about whose particles the rows are, not about which columns are loaded
            if catoracle.check_subsamples(run, cat, truth, slabs, kw['cleaned'], resolved_AB(kw['subsamples']), masks=masks, desc=desc, passthrough=bool(kw.get('passthrough'))):
                if run.too_many():
                    return
            elif len(kept) < 4:
                # call history: the first catalogues of the tree stay alive (as a caller's would) while the remaining ones are loaded
                kp = Kept.take(cat, desc)
                if kp is not None:
                    kept.append(kp)
        # the catalogues loaded first still index their own particles, and so do those kept from the previous tree
        reverify_all(run, kept)
        reverify_all(run, carry or [])
        if carry is not None:
            carry[:] = kept[:2]
            for kp in carry:
                kp.later = []
                kp.desc = dict(kp.desc, kept_across_trees=True)
    finally:
        shutil.rmtree(truth['root'], ignore_errors=True)


def lc_trees(run, rng, n):
    for k in range(n):
        L = gen_catalog.make_lc_tree(rng, H=int(rng.integers(0, 60)), compression=[None, 'zlib', 'blsc'][k % 3], unordered=bool(k % 2))
        kept = []
        try:
            # filtered loads (rows dropped at the start, the end, in between): each kept row's slice still holds the particles its
            # stored start/count address in the particle file
            for fj, keepf in enumerate((lambda h: np.arange(len(h)) % 3 != 0, lambda h: np.arange(len(h)) >= len(h) // 2, lambda h: np.arange(len(h)) < max(1, len(h) - 2), lambda h: np.asarray(h['N']) % 2 == 0)):
                desc = dict(layout='light_cone', H=L['H'], rows_in_particle_order=not bool(k % 2), subsamples='A, pid+pos', fields='all', filter=['every-third-dropped', 'first-half-dropped', 'last-two-dropped', 'N even'][fj])
                run.progress(desc)
                run.ev()
                cat, err = catoracle.load(L['path'], subsamples=dict(A=True, pid=True, pos=True), fields='all', filter_func=keepf)
                run.count('loads')
                if err is not None:
                    run.count('load_errors')
                    run.violation('subsample-load-fails', dict(error=f'{type(err).__name__}: {err}'[:200], **desc))
                    continue
                run.count('loads_ok')
                run.count('filtered_light_cone_loads')
                mask = np.arange(L['H']) % 3 != 0 if fj == 0 else (np.arange(L['H']) >= L['H'] // 2 if fj == 1 else (np.arange(L['H']) < max(1, L['H'] - 2) if fj == 2 else L['raw']['N'] % 2 == 0))
                run.nt(('lc-filter', k, fj))
                for kp in kept:
                    kp.later.append(desc)
                if not catoracle.check_lc_subsamples(run, cat, L, mask=mask, desc=desc):
                    kept.append(Kept(cat, desc, recheck=lambda c, mask=mask, desc=desc: catoracle.check_lc_subsamples(run, c, L, mask=mask, desc=desc, key_prefix='earlier-lc-catalogue')))
            for sub in (True, dict(A=True, pid=True), dict(A=True, B=True, pos=True), dict(rv=True)):
                for fields in ('DEFAULT_FIELDS', 'all', ['N', 'npstartA', 'npoutA', 'x_L2com']):
                    desc = dict(layout='light_cone', H=L['H'], subsamples=sub if sub is True else dict(sub), fields=fields)
                    run.progress(desc)
                    run.ev()
                    # the catalogue named by its directory, by the lc_halo_info file, or by a one-element list of it
                    nload = run.counters.get('loads', 0)
                    lcfile = os.path.join(L['path'], 'lc_halo_info.asdf')
                    lcpath = [L['path'], lcfile, [lcfile]][nload % 3]
                    desc['path_style'] = ['directory', 'file', 'file_list'][nload % 3]
                    cat, err = catoracle.load(lcpath, subsamples=sub, fields=fields, **(dict(verbose=True) if nload % 5 == 4 else {}))
                    run.count('loads')
                    if err is not None:
                        run.count('load_errors')
                        run.violation('subsample-load-fails', dict(error=f'{type(err).__name__}: {err}'[:200], **desc))
                        continue
                    run.count('loads_ok')
                    run.nt(('lc', k, repr(sub), repr(fields)))
                    want = {'pos', 'vel', 'pid'} if sub is True else {c for c in ('pos', 'vel', 'pid') if sub.get(c) or (sub.get('rv') and c != 'pid')}
                    if not want:
                        want = {'pos', 'vel'}
                    if set(cat.subsamples.colnames) != want:
                        run.violation('lc-subsample-columns', dict(got=cat.subsamples.colnames, expected=sorted(want), **desc))
                    for kp in kept:
                        kp.later.append(desc)
                    if not catoracle.check_lc_subsamples(run, cat, L, desc=desc):
                        kept.append(Kept(cat, desc, recheck=lambda c, desc=desc: catoracle.check_lc_subsamples(run, c, L, desc=desc, key_prefix='earlier-lc-catalogue')))
            # call history: every catalogue of this light cone is still what it was when it was returned
            reverify_all(run, kept, full=True)
        finally:
            shutil.rmtree(L['root'], ignore_errors=True)


def history(run, rng, ntree):
    """Call history.  Per tree: a sequence of loads that agree in the number of halo rows and in a subsample letter but differ in
    the offsets they produce; every catalogue is kept; after each load all earlier ones are compared with their snapshots, and at
    the end each is put through the full oracle once more."""
    from .c03 import MaskFilter

    for k in range(ntree):
        nslab = int(rng.integers(2, 5))
        inds = list(range(nslab)) if k % 2 == 0 else sorted(int(x) for x in rng.choice(np.arange(0, 30), nslab, replace=False))
        hps = [int(rng.integers(1, 20)) for _ in inds]
        knobs = dict(slab_inds=inds, halos_per_slab=hps, box=float(rng.choice([1.0, 500.0, 2000.0])), compression=[None, 'zlib'][k % 2], gap_prob=0.5, zero_part_prob=0.2, cleaned_away_prob=0.25, merge_prob=0.6, trailing=bool(k % 2), clean_layout=[1, 2, 3, 4][k % 4])
        T1 = gen_catalog.make_tree(rng, **knobs)
        T2 = gen_catalog.make_tree(rng, sim='SimB', **knobs)  # another simulation with the same halo count in every superslab
        kept = []
        try:
            c0 = bool(k % 2)
            s1 = inds[int(rng.integers(0, nslab))]
            one = lambda T: os.path.join(T['path'], 'halo_info', f'halo_info_{s1:03d}.asdf')  # noqa
            m1 = [rng.random(T1['slabs'][s]['H']) < 0.6 for s in inds]
            m2 = [rng.permutation(m) for m in m1]  # other rows, equally many per superslab
            AB, A, B = dict(A=True, B=True), dict(A=True), dict(B=True)
            seq = [
                ('A+B', T1, T1['path'], inds, c0, dict(AB, pos=True, pid=True), None),
                ('B only', T1, T1['path'], inds, c0, dict(B, pos=True), None),
                ('A only', T1, T1['path'], inds, c0, dict(A, vel=True, pid=True), None),
                ('A+B, other cleaning', T1, T1['path'], inds, not c0, dict(AB, pid=True), None),
                ('B only, other cleaning', T1, T1['path'], inds, not c0, dict(B, rv=True), None),
                ('A+B again', T1, T1['path'], inds, c0, dict(AB, pos=True, pid=True), None),
                ('other simulation, A+B', T2, T2['path'], inds, c0, dict(AB, pos=True), None),
                ('other simulation, B only', T2, T2['path'], inds, not c0, dict(B, pid=True), None),
                ('filter 1', T1, T1['path'], inds, c0, dict(AB, pos=True), m1),
                ('filter 2, equally many rows', T1, T1['path'], inds, c0, dict(AB, pos=True), m2),
                ('one file', T1, one(T1), [s1], c0, True, None),
                ('one file, other simulation', T2, one(T2), [s1], c0, dict(AB, rv=True, pid=True), None),
                ('one file, B only', T1, one(T1), [s1], not c0, dict(B, pos=True, vel=True), None),
            ]
            order = [int(i) for i in rng.permutation(len(seq))]
            nt = nontrivial_tree(T1) and nontrivial_tree(T2)
            for step, j in enumerate(order):
                name, T, path, slabs, cleaned, sub, masks = seq[j]
                kw = dict(cleaned=cleaned, subsamples=sub, fields=['all', ['N', 'x_com'], 'DEFAULT_FIELDS'][(k + j) % 3])
                desc = dict(history_tree=k, step=step, load=name, slab_inds=inds, halos_per_slab=hps, slabs_loaded=slabs, filter_kept=([int(m.sum()) for m in masks] if masks else None), **{a: (b if not isinstance(b, dict) else dict(b)) for a, b in kw.items()})
                if masks:
                    kw['filter_func'] = MaskFilter(masks)
                run.progress(desc)
                run.ev()
                cat, err = catoracle.load(path, **kw)
                run.count('loads')
                run.count('history_loads')
                for kp in kept:
                    kp.later.append(desc)
                if err is not None:
                    run.count('load_errors')
                    run.violation('subsample-load-fails', dict(error=f'{type(err).__name__}: {err}'[:200], **desc))
                    continue
                run.count('loads_ok')
                chk = lambda c, prefix='subsample', T=T, slabs=slabs, cleaned=cleaned, sub=sub, masks=masks, desc=desc: catoracle.check_subsamples(run, c, T, slabs, cleaned, resolved_AB(sub), masks=masks, desc=desc, key_prefix=prefix)  # noqa
                fresh_ok = not chk(cat)
                # every catalogue loaded before this one is still what it was
                for i, kp in enumerate(kept):
                    if not kp.reverify(run) and nt:
                        run.nt(('history', k, i, step))
                if fresh_ok:
                    kept.append(Kept(cat, desc, recheck=lambda c, chk=chk: chk(c, prefix='earlier-catalogue')))
                if run.too_many():
                    return
            reverify_all(run, kept, full=True)
        finally:
            shutil.rmtree(T1['root'], ignore_errors=True)
            shutil.rmtree(T2['root'], ignore_errors=True)


class RaisingFilter:
    """A caller's filter that works for the first superslabs and raises on a later one."""

    class Refused(RuntimeError):
        pass

    def __init__(self, fail_at):
        self.fail_at, self.ncalls = fail_at, 0

    def __call__(self, h):
        self.ncalls += 1
        if self.ncalls > self.fail_at:
            raise RaisingFilter.Refused(f'filter refuses superslab number {self.ncalls}')
        return np.ones(len(h), dtype=bool)


def _find(root, name):
    for d, _, fns in os.walk(root):
        if name in fns:
            return os.path.join(d, name)
    return None


def after_rejected(run, rng, nround):
    """State left behind by a failed / rejected call.  Per round: two simulations X and Y with common superslab numbers (hence common
    file names) but different contents.  Valid loads of Y and X are made and verified first (and kept); then, repeatedly: one call on X
    that the real code rejects (it raises on the unchanged code too), followed by valid loads, each put through the full oracle against
    the generator's ground truth; the catalogues returned before the rejected call are re-verified as well.  The verdict never depends
    on the rejected call itself."""
    for k in range(nround):
        nslab = int(rng.integers(2, 5))
        inds = list(range(nslab)) if k % 2 == 0 else sorted(int(x) for x in rng.choice(np.arange(0, 30), nslab, replace=False))
        hpsX = [int(rng.integers(1, 16)) for _ in inds]
        # Y: the same superslab numbers; the same halo counts (k%3==0), other halo counts, or one more superslab
        indsY, hpsY = list(inds), (list(hpsX) if k % 3 == 0 else [int(rng.integers(1, 16)) for _ in inds])
        if k % 3 == 2:
            indsY, hpsY = indsY + [inds[-1] + 1 + int(rng.integers(0, 3))], hpsY + [int(rng.integers(1, 16))]
        common = dict(box=float(rng.choice([1.0, 500.0, 2000.0])), gap_prob=0.5, zero_part_prob=0.2, cleaned_away_prob=0.25, merge_prob=0.7, trailing=bool(k % 2))
        X = gen_catalog.make_tree(rng, slab_inds=inds, halos_per_slab=hpsX, sim='SimX', compression=[None, 'zlib'][k % 2], clean_layout=[1, 2, 3, 4][k % 4], **common)
        Y = gen_catalog.make_tree(rng, slab_inds=indsY, halos_per_slab=hpsY, sim=['SimY', 'SimX'][(k // 2) % 2], compression=[None, 'zlib'][(k // 2) % 2], clean_layout=[1, 2, 3, 4][(k + k // 4) % 4], **common)
        undo = []
        try:
            nt = nontrivial_tree(X) and nontrivial_tree(Y)
            AB, A, B = dict(A=True, B=True), dict(A=True), dict(B=True)
            sY = indsY[int(rng.integers(0, len(indsY)))]
            valid = [
                ('Y cleaned, A+B pos+pid', Y, Y['path'], indsY, True, dict(AB, pos=True, pid=True)),
                ('Y cleaned, B rv', Y, Y['path'], indsY, True, dict(B, rv=True)),
                ('Y cleaned, A pid', Y, Y['path'], indsY, True, dict(A, pid=True)),
                ('Y cleaned, everything', Y, Y['path'], indsY, True, True),
                ('Y cleaned, one file', Y, os.path.join(Y['path'], 'halo_info', f'halo_info_{sY:03d}.asdf'), [sY], True, dict(AB, vel=True, pid=True)),
                ('Y uncleaned, A+B pid', Y, Y['path'], indsY, False, dict(AB, pid=True)),
                ('X repaired, cleaned, A+B pos+pid', X, X['path'], inds, True, dict(AB, pos=True, pid=True)),
                ('X repaired, uncleaned, B pos', X, X['path'], inds, False, dict(B, pos=True)),
            ]

            def do_valid(j, tag, after=None):
                """One valid load + full oracle.  Returns (violation raised?, catalogue, desc, oracle)."""
                name, T, path, slabs, cleaned, sub = valid[j]
                kw = dict(cleaned=cleaned, subsamples=sub, fields=['all', ['N', 'x_com'], 'DEFAULT_FIELDS'][(k + j) % 3])
                desc = dict(rejected_round=k, load=name, phase=tag, after_rejected_call=after, slab_inds_X=inds, slab_inds_Y=indsY, halos_per_slab_X=hpsX, halos_per_slab_Y=hpsY, slabs_loaded=slabs, **{a: (b if not isinstance(b, dict) else dict(b)) for a, b in kw.items()})
                run.progress(desc)
                run.ev()
                cat, err = catoracle.load(path, **kw)
                run.count('loads')
                if err is not None:
                    run.count('load_errors')
                    # a documented configuration on an intact tree; it is the call made at the start of the round
                    run.violation('subsample-load-fails' if after is None else 'valid-load-after-rejected-call-fails', dict(error=f'{type(err).__name__}: {err}'[:200], **desc))
                    return True, None, desc, None
                run.count('loads_ok')
                chk = lambda c, prefix, T=T, slabs=slabs, cleaned=cleaned, sub=sub, desc=desc: catoracle.check_subsamples(run, c, T, slabs, cleaned, resolved_AB(sub), desc=desc, key_prefix=prefix)  # noqa
                return bool(chk(cat, 'subsample' if after is None else 'valid-load-after-rejected-call')), cat, desc, chk

            # the valid calls, before anything was rejected in this round: full oracle, and kept alive as a caller's would be
            kept = []
            for j in range(len(valid)):
                bad, cat, desc, chk = do_valid(j, 'before the rejected calls')
                if not bad:
                    kept.append(Kept(cat, desc, recheck=lambda c, chk=chk: chk(c, 'catalogue-returned-before-rejected-call')))
                if run.too_many():
                    return

            def hide(fn):
                os.rename(fn, fn + '.hidden')
                undo.append(lambda: os.rename(fn + '.hidden', fn))

            def truncate(fn):
                shutil.copyfile(fn, fn + '.orig')
                n = os.path.getsize(fn)
                with open(fn, 'r+b') as f:
                    f.truncate(max(1, (n * int(rng.integers(3, 9))) // 10))
                undo.append(lambda: os.replace(fn + '.orig', fn))

            def part_file():
                rp, ab, s = ['rv', 'pid'][int(rng.integers(0, 2))], 'AB'[int(rng.integers(0, 2))], inds[int(rng.integers(0, nslab))]
                return os.path.join(X['path'], f'halo_{rp}_{ab}', f'halo_{rp}_{ab}_{s:03d}.asdf'), f'halo_{rp}_{ab}_{s:03d}'

            full = dict(AB, pos=True, vel=True, pid=True)
            rejects = ['subsample file missing', 'subsample file truncated', 'cleaned_rvpid file missing', 'cleaned_rvpid file truncated', 'unknown field', 'unknown unpack_bits name', 'filter raises on a later superslab', 'passthrough without cleaning', 'subsample file missing, uncleaned']
            for step, r in enumerate(int(i) for i in rng.permutation(len(rejects))):
                kind = rejects[r]
                kw = dict(cleaned=True, subsamples=dict(full), fields=['N', 'x_com'])
                what = kind
                if kind.startswith('subsample file'):
                    fn, nm = part_file()
                    (hide if 'missing' in kind else truncate)(fn)
                    what = f'{kind}: {nm}'
                    if kind.endswith('uncleaned'):
                        kw['cleaned'] = False
                elif kind.startswith('cleaned_rvpid'):
                    s = inds[int(rng.integers(1, nslab))]  # a later superslab: the earlier ones are opened first
                    fn = _find(X['root'], f'cleaned_rvpid_{s:03d}.asdf')
                    (hide if 'missing' in kind else truncate)(fn)
                    what = f'{kind}: cleaned_rvpid_{s:03d}'
                elif kind == 'unknown field':
                    kw['fields'] = ['N', 'no_such_field_xyz']
                elif kind == 'unknown unpack_bits name':
                    kw['unpack_bits'] = ['pid', 'no_such_bits']
                elif kind.startswith('filter raises'):
                    kw['filter_func'] = RaisingFilter(int(rng.integers(1, nslab)))
                else:
                    kw.update(cleaned=False, passthrough=True, subsamples=dict(AB, rvint=True))
                run.ev()
                cat, err = catoracle.load(X['path'], **kw)
                while undo:
                    undo.pop()()  # X is whole again
                for kp in kept:
                    kp.later.append(dict(rejected_call=what))
                if err is None:
                    # the statement does not say this call must be rejected: counted only
                    run.count('calls_expected_to_be_rejected_that_returned')
                    run.count('returned_instead_of_rejected|' + kind)
                    del cat
                    what += ' (returned)'
                else:
                    run.count('rejected_calls_before_valid_ones')
                    run.count(f'rejected|{kind}|{type(err).__name__}')
                    what += f' -> {type(err).__name__}'
                # the valid loads that follow; the first is a cleaned load of Y two times out of three
                first = int(rng.integers(0, 5)) if (step + k) % 3 else int(rng.integers(5, len(valid)))
                second = int(rng.integers(0, len(valid)))
                for n, j in enumerate((first, second)):
                    bad, cat, desc, chk = do_valid(j, f'valid load number {n + 1} after the rejected call', after=what)
                    run.count('valid_loads_after_rejected_calls')
                    if not bad and nt and err is not None:
                        run.nt(('after-rejected', k, kind, n, valid[j][0]))
                    for kp in kept:
                        kp.later.append(desc)
                    if run.too_many():
                        return
                # what was returned before the rejected call is still what it was (one of them by the full oracle, in turn)
                for i, kp in enumerate(kept):
                    kp.reverify(run, full=(i == step % len(kept)))
                if run.too_many():
                    return
            reverify_all(run, kept, full=True)
        finally:
            while undo:
                undo.pop()()
            shutil.rmtree(X['root'], ignore_errors=True)
            shutil.rmtree(Y['root'], ignore_errors=True)


def check(run):
    catoracle.fast_io()
    catoracle.install_contracts()
    QUICK[0] = run.quick
    rng = run.rng(0)
    ntree, nconf = (24, 16) if run.quick else (300, 40)
    carry = []
    for k in range(ntree):
        one_tree(run, rng, k, nconf, carry)
        if run.too_many():
            return
    lc_trees(run, rng, 4 if run.quick else 40)
    if not run.too_many():
        history(run, run.rng(1), 6 if run.quick else 60)
    if not run.too_many():
        after_rejected(run, run.rng(2), 5 if run.quick else 60)
    catoracle.report_contracts(run)
    if not run.counters.get('contract_evaluations_new_indices'):
        run.note_inconclusive('in-situ contracts were never evaluated')
    if run.counters.get('loads_ok', 0) < 0.8 * run.counters.get('loads', 1):
        run.note_inconclusive(f"only {run.counters.get('loads_ok', 0)} of {run.counters.get('loads')} loads produced a catalogue")


def replay(run, data):
    check(run)
