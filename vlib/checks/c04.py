"""C04 — RVint and PID bit fields decode exactly per the documented layout.

Reference model in exact integer arithmetic (numpy int64 / Python ints) written from the
documented layout, executed against the real compiled decoders over sweeps of the bit space;
thorough tier executes the real decoder on all 2^32 RVint words."""

import itertools
import os
import sys
import time

import numpy as np

from .. import core

LEVEL = 'exploration'
RULE = (
    'RVint: quick = every 20-bit position field x 16 velocity patterns + every 12-bit velocity field x 256 position patterns '
    '+ 2^22 random words, each through the real unpack_rvint (f4 and f8) and compared with the integer reference; thorough = all 2^32 words. '
    'aux: every value of each 15-bit index field, every 10-bit density value, the tag bit, each crossed with complements of the other bits '
    '(all-zero, all-one, random); all 32 output subsets; supplied/allocated/False outputs. '
    'non-trivial = distinct (sweep block, dtype, BoxSize/ppd, output mode) combinations executed and compared'
)
RULE += (
    ' Added after seeded round 9: aux words in the other byte order and as native int64; results of earlier allocate-mode calls re-compared after later calls of equal / smaller length; 8 Python threads decoding different words at the same time.'
)
ASSUMPTIONS = [
    'tolerance 1 ulp of the output dtype for pos/vel (bit-exact expected), 4 ulp(BoxSize) for lagr_pos',
    'positions/velocities to encode lie inside the representable range of the format',
]

BOXES = [1.0, 500.0, 2000.0, 7400.0]
PPDS = [1, 64, 6912]

AUX_X = 0x7FFF
AUX_Y = 0x7FFF << 16
AUX_Z = 0x7FFF << 32
AUX_PID = AUX_X | AUX_Y | AUX_Z
AUX_TAG_BIT = 48
AUX_DENS = 0x3FF << 49


def ref_rvint(words, box, dtype):
    w = words.astype(np.int64)
    p = w >> 12  # arithmetic on int64 of a sign-extended int32
    v = (w & 0xFFF) - 2048
    pos = (p.astype(np.float64) * (box / 1e6)).astype(dtype)
    vel = (v.astype(np.float64) * (6000.0 / 2048)).astype(dtype)
    return pos, vel


def compare_rv(run, words3, box, dtype, posvel, tag):
    """words3: int32 (N,3). posvel: real outputs (pos, vel) possibly None."""
    rp, rv = ref_rvint(words3, box, dtype)
    for name, got, ref in (('pos', posvel[0], rp), ('vel', posvel[1], rv)):
        if got is None:
            continue
        got = np.asarray(got).reshape(-1, 3)
        ok = core.ulp_diff_ok(got, ref, 1, dtype)
        run.count('rvint_field_values_compared', got.size)
        if not ok.all():
            i = np.argwhere(~ok)[0]
            w = int(words3[i[0], i[1]])
            return run.violation(
                f'rvint-{name}-decode',
                dict(tag=tag, word=w, word_hex=hex(w & 0xFFFFFFFF), box=box, dtype=str(np.dtype(dtype)), got=float(got[i[0], i[1]]), expected=float(ref[i[0], i[1]]), nbad=int((~ok).sum())),
            )
    return False


def rv_blocks_quick(rng):
    """Yield (tag, int32 word arrays of length multiple of 3)."""
    p = np.arange(-(1 << 19), 1 << 19, dtype=np.int64)
    vpats = [0, 0xFFF, 0x800, 0x7FF, 0x001, 0xAAA, 0x555, 0x801] + [int(x) for x in rng.integers(0, 4096, 8)]
    for vp in vpats:
        w = ((p << 12) | vp).astype(np.uint32).view(np.int32)
        yield (f'allpos_v{vp:03x}', w)
    v = np.arange(4096, dtype=np.int64)
    ppats = [0, -1, -(1 << 19), (1 << 19) - 1, 1, -2, 0x55555, -0x55556] + [int(x) for x in rng.integers(-(1 << 19), 1 << 19, 248)]
    ws = []
    for pp in ppats:
        ws.append((((np.int64(pp) << 12) & 0xFFFFFFFF) | v).astype(np.uint32))
    yield ('allvel_x256pos', np.concatenate(ws).view(np.int32))
    yield ('random', rng.integers(0, 1 << 32, 1 << 22, dtype=np.uint64).astype(np.uint32).view(np.int32))


def pad3(w):
    n = (-len(w)) % 3
    if n:
        w = np.concatenate([w, np.repeat(w[:1], n)])
    return w.reshape(-1, 3)


def check_rvint_sweep(run, bitpacked):
    rng = run.rng(1)
    nb = 0
    for tag, w in rv_blocks_quick(rng):
        w3 = pad3(w)
        for dtype in (np.float32, np.float64):
            box = BOXES[nb % len(BOXES)]
            pos, vel = bitpacked.unpack_rvint(w3, box, float_dtype=dtype)
            run.ev()
            run.count('rvint_words_decoded', w3.size)
            run.nt(('rv', tag, np.dtype(dtype).str, box))
            if compare_rv(run, w3, box, dtype, (pos, vel), tag):
                return
            if core.poison_count(pos) or core.poison_count(vel):
                run.violation('rvint-unwritten-output', dict(tag=tag))
        nb += 1
    run.sample(dict(block='allpos_v000', first_words=[hex(int(x) & 0xFFFFFFFF) for x in pad3(next(rv_blocks_quick(run.rng(1)))[1])[0]]))


def _exh_worker(args):
    """Decode words [lo, hi) (as uint32 values) with the real kernel; compare to reference."""
    lo, hi, box = args
    from abacusnbody.data import bitpacked

    CH = 3 * (1 << 22)
    nbad = 0
    first = None
    n = 0
    for a in range(lo, hi, CH):
        b = min(hi, a + CH)
        w = np.arange(a, b, dtype=np.uint64).astype(np.uint32).view(np.int32)
        m = len(w) - len(w) % 3
        parts = [w[:m].reshape(-1, 3)]
        if m < len(w):
            parts.append(pad3(w[m:]))
        for w3 in parts:
            for dtype in (np.float32,):
                pos, vel = bitpacked.unpack_rvint(w3, box, float_dtype=dtype)
                rp, rv = ref_rvint(w3, box, dtype)
                okp = core.ulp_diff_ok(pos, rp, 1, dtype)
                okv = core.ulp_diff_ok(vel, rv, 1, dtype)
                bad = ~(okp & okv)
                if bad.any():
                    nbad += int(bad.sum())
                    if first is None:
                        i = np.argwhere(bad)[0]
                        first = dict(word=int(w3[i[0], i[1]]), gotpos=float(pos[i[0], i[1]]), exppos=float(rp[i[0], i[1]]), gotvel=float(vel[i[0], i[1]]), expvel=float(rv[i[0], i[1]]), box=box)
            n += w3.size
    return dict(n=n, nbad=nbad, first=first, lo=lo, hi=hi)


def check_rvint_exhaustive(run):
    import concurrent.futures as cf
    import multiprocessing as mp

    nproc = min(16, os.cpu_count() or 1)
    NW = 1 << 32
    step = NW // 64
    jobs = [(lo, lo + step, BOXES[(lo // step) % len(BOXES)]) for lo in range(0, NW, step)]
    total = 0
    with cf.ProcessPoolExecutor(nproc, mp_context=mp.get_context('spawn')) as ex:
        for r in ex.map(_exh_worker, jobs):
            total += r['n']
            run.ev()
            run.nt(('rv_exh', r['lo']))
            if r['nbad']:
                run.violation('rvint-decode-exhaustive', r)
    run.count('rvint_words_decoded_exhaustive', total)
    run.extra['rvint_exhaustive_words'] = total
    run.exhaustive = total >= NW


def check_rvint_roundtrip(run, bitpacked):
    """Independent encoder from the documentation: 20-bit signed position in units of box/1e6,
    12-bit velocity where 6000 km/s = 2048 counts, offset 2048."""
    rng = run.rng(2)
    N = 300000
    for k, box in enumerate(BOXES):
        x = rng.uniform(-0.5, 0.5, (N, 3)) * box
        x[:7, 0] = np.array([-0.5, 0.0, 0.4999995, 1e-7, -1e-7, 0.25, -0.25]) * box
        v = rng.uniform(-6000, 6000 - 6000 / 2048, (N, 3))
        v[:5, 1] = [-6000.0, 0.0, 5997.0703125, 2.9296875 / 2, -2.9296875 / 2]
        p = np.rint(x * 1e6 / box).astype(np.int64)
        p = np.clip(p, -(1 << 19), (1 << 19) - 1)
        c = np.clip(np.rint(v * 2048 / 6000).astype(np.int64) + 2048, 0, 4095)
        w = (((p << 12) & 0xFFFFFFFF) | c).astype(np.uint32).view(np.int32)
        pos, vel = bitpacked.unpack_rvint(w, box, float_dtype=np.float64)
        run.ev()
        run.nt(('rv_roundtrip', box))
        hq_p = 0.5 * box / 1e6
        hq_v = 0.5 * 6000 / 2048
        inrange = np.abs(x * 1e6 / box) <= (1 << 19) - 1
        bad = (np.abs(pos - x) > hq_p * (1 + 1e-9)) & inrange
        if bad.any():
            i = np.argwhere(bad)[0]
            run.violation('rvint-roundtrip-pos', dict(box=box, x=float(x[tuple(i)]), decoded=float(pos[tuple(i)]), half_quantum=hq_p))
        bad = np.abs(vel - v) > hq_v * (1 + 1e-9)
        if bad.any():
            i = np.argwhere(bad)[0]
            run.violation('rvint-roundtrip-vel', dict(v=float(v[tuple(i)]), decoded=float(vel[tuple(i)]), half_quantum=hq_v))
        run.count('roundtrip_values', 2 * x.size)


def check_rvint_output_modes(run, bitpacked):
    rng = run.rng(3)
    N = 1000
    w = rng.integers(0, 1 << 32, (N, 3), dtype=np.uint64).astype(np.uint32).view(np.int32)
    G = 24
    for dtype in (np.float32, np.float64):
        box = 2000.0
        rp, rv = ref_rvint(w, box, dtype)
        modes = ['none', 'false', 'arr', 'flat']
        for pm, vm in itertools.product(modes, modes):
            bufs = {}

            def mk(mode, name):
                if mode == 'none':
                    return None
                if mode == 'false':
                    return False
                buf = np.full(3 * N + 2 * G, 12345.0, dtype=dtype)
                bufs[name] = buf
                inner = buf[G : G + 3 * N]
                return inner.reshape(N, 3) if mode == 'arr' else inner

            po, vo = mk(pm, 'p'), mk(vm, 'v')
            for wshape in ('N3', 'flat'):
                ww = w if wshape == 'N3' else w.reshape(-1)
                ret = bitpacked.unpack_rvint(ww, box, float_dtype=dtype, posout=po, velout=vo)
                run.ev()
                run.nt(('rv_modes', pm, vm, np.dtype(dtype).str, wshape))
                desc = dict(posout=pm, velout=vm, dtype=np.dtype(dtype).str, input=wshape)
                for which, mode, r, ref, out in (('pos', pm, ret[0], rp, po), ('vel', vm, ret[1], rv, vo)):
                    if mode == 'none':
                        if not (isinstance(r, np.ndarray) and r.shape == (N, 3) and r.dtype == dtype and core.ulp_diff_ok(r, ref, 1, dtype).all()):
                            run.violation('rvint-output-mode', dict(which=which, problem='allocated output wrong', **desc))
                    elif mode == 'false':
                        if isinstance(r, np.ndarray) or r != 0:
                            run.violation('rvint-output-mode', dict(which=which, problem='False output not 0', ret=repr(r), **desc))
                    else:
                        got = np.asarray(out).reshape(N, 3)
                        if r != N or not core.ulp_diff_ok(got, ref, 1, dtype).all():
                            run.violation('rvint-output-mode', dict(which=which, problem='supplied output wrong', ret=repr(r), **desc))
                        buf = bufs[which[0]]
                        if not ((buf[:G] == 12345.0).all() and (buf[G + 3 * N :] == 12345.0).all()):
                            run.violation('rvint-output-canary', dict(which=which, **desc))
    # supplied outputs whose dtype differs from float_dtype, and strided (non-contiguous) supplied outputs:
    # the documented contract is "the array in which to store the unpacked positions"
    for fdt, bdt in ((np.float32, np.float64), (np.float64, np.float32)):
        box = 500.0
        for layout in ('contig', 'flat', 'strided'):
            if layout == 'strided':
                big = np.full((N, 6), 777.0, dtype=bdt)
                po, vo = big[:, :3], big[:, 3:]
            else:
                po = np.full((N, 3), 777.0, dtype=bdt)
                vo = np.full((N, 3), 777.0, dtype=bdt)
                if layout == 'flat':
                    po, vo = po.reshape(-1), vo.reshape(-1)
            run.ev()
            run.nt(('rv_modes_mixed', np.dtype(fdt).str, np.dtype(bdt).str, layout))
            desc = dict(float_dtype=np.dtype(fdt).str, buffer_dtype=np.dtype(bdt).str, layout=layout)
            try:
                ret = bitpacked.unpack_rvint(w, box, float_dtype=fdt, posout=po, velout=vo)
            except Exception as e:
                if layout == 'strided':
                    run.count('strided_supplied_output_rejected')  # a refusal is not a wrong result
                    continue
                run.violation('rvint-output-mode', dict(problem=f'supplied output raises {type(e).__name__}: {e}'[:200], **desc))
                continue
            rp, rv = ref_rvint(w, box, bdt)
            low = np.float32
            for which, out, ref, r in (('pos', po, rp, ret[0]), ('vel', vo, rv, ret[1])):
                got = np.asarray(out).reshape(N, 3)
                if r != N or not core.ulp_diff_ok(got, ref, 2, low).all():
                    run.violation('rvint-output-mode', dict(which=which, problem='supplied output not filled with the decoded values', ret=repr(r), first_row=got[0].tolist(), expected=ref[0].tolist(), **desc))
                    break
    # empty input
    for dtype in (np.float32, np.float64):
        r = bitpacked.unpack_rvint(np.zeros((0, 3), dtype=np.int32), 1.0, float_dtype=dtype)
        run.ev()
        if r[0].shape != (0, 3) or r[1].shape != (0, 3):
            run.violation('rvint-output-mode', dict(problem='empty input shape', shapes=[r[0].shape, r[1].shape]))


def ref_pids(packed):
    """Exact integer reference with Python-int masks on uint64."""
    p = packed.astype(np.uint64)
    ix = (p & np.uint64(AUX_X)).astype(np.int64)
    iy = ((p >> np.uint64(16)) & np.uint64(0x7FFF)).astype(np.int64)
    iz = ((p >> np.uint64(32)) & np.uint64(0x7FFF)).astype(np.int64)
    tag = ((p >> np.uint64(AUX_TAG_BIT)) & np.uint64(1)).astype(np.int64)
    d = ((p >> np.uint64(49)) & np.uint64(0x3FF)).astype(np.int64)
    pid = ix | (iy << 16) | (iz << 32)
    return dict(lagr_idx=np.stack([ix, iy, iz], axis=1), tagged=tag, density=d * d, pid=pid)


def aux_blocks(rng, ncomp):
    """Field sweeps x complements of the other bits."""
    ALL = (1 << 64) - 1
    fields = [('x', 0, 15), ('y', 16, 15), ('z', 32, 15), ('tag', 48, 1), ('dens', 49, 10), ('unused15', 15, 1), ('unused31', 31, 1), ('unused47', 47, 1), ('top', 59, 5)]
    for name, shift, width in fields:
        vals = np.arange(1 << width, dtype=np.uint64) << np.uint64(shift)
        mask = ((1 << width) - 1) << shift
        comps = [0, ALL & ~mask] + [int(x) & ~mask for x in rng.integers(0, 1 << 63, ncomp - 2, dtype=np.uint64) * 2 + rng.integers(0, 2, ncomp - 2, dtype=np.uint64)]
        arrs = [vals | np.uint64(c) for c in comps]
        yield name, np.concatenate(arrs)
    yield 'random', rng.integers(0, 1 << 63, 1 << 20, dtype=np.uint64) * np.uint64(2) + rng.integers(0, 2, 1 << 20, dtype=np.uint64)


def compare_pids(run, packed, out, box, ppd, dtype, tag):
    ref = ref_pids(packed)
    for k, got in out.items():
        if k == 'lagr_pos':
            exp = ref['lagr_idx'].astype(np.float64) * (box / ppd) - box / 2
            tol = 4 * float(np.spacing(np.dtype(dtype).type(box))) + 4 * np.spacing(np.abs(exp).astype(dtype)).astype(np.float64)
            ok = np.abs(got.astype(np.float64) - exp) <= tol
        else:
            exp = ref[k]
            ok = got.astype(np.float64) == exp.astype(np.float64) if k == 'density' else (got.astype(np.int64) == exp)
        run.count('aux_field_values_compared', got.size)
        if got.shape != exp.shape:
            return run.violation('aux-shape', dict(field=k, got=got.shape, exp=exp.shape))
        if not ok.all():
            i = np.argwhere(~ok)[0]
            return run.violation(
                f'aux-{k}-decode',
                dict(tag=tag, word=hex(int(packed[i[0]])), field=k, got=float(got[tuple(i)]), expected=float(exp[tuple(i)]), box=box, ppd=ppd, dtype=np.dtype(dtype).str, nbad=int((~ok).sum())),
            )
        if k != 'lagr_idx':  # 0x5A5A is a legal 15-bit index, every other field's poison pattern is impossible
            pc = core.poison_count(got)
            run.count('poison_scans')
            if pc:  # a poisoned element is an element never written
                return run.violation('aux-unwritten-output', dict(field=k, count=pc))
    return False


def check_aux(run, bitpacked):
    rng = run.rng(4)
    ncomp = 64 if run.quick else 1024
    ALLF = dict(pid=True, lagr_pos=True, tagged=True, density=True, lagr_idx=True)
    k = 0
    for name, packed in aux_blocks(rng, ncomp):
        for dtype in (np.float32, np.float64):
            box, ppd = BOXES[k % 4], PPDS[k % 3]
            k += 1
            out = bitpacked.unpack_pids(packed, box=box, ppd=ppd, float_dtype=dtype, **ALLF)
            run.ev()
            run.count('aux_words_decoded', len(packed))
            run.nt(('aux', name, np.dtype(dtype).str, box, ppd))
            if set(out) != set(ALLF):
                run.violation('aux-output-set', dict(got=sorted(out)))
            exp_dt = dict(pid=np.int64, lagr_pos=dtype, tagged=np.uint8, density=dtype, lagr_idx=np.int16)
            for f, a in out.items():
                if a.dtype != exp_dt[f]:
                    run.violation('aux-dtype', dict(field=f, got=str(a.dtype)))
            if compare_pids(run, packed, out, box, ppd, dtype, name):
                return
    run.sample(dict(block='dens', example_word=hex((1023 << 49) | 0x1234), expected_density=1023 * 1023))
    # all 32 subsets of outputs (each a separate specialisation of the real kernel)
    packed = rng.integers(0, 1 << 63, 5000, dtype=np.uint64) * np.uint64(2) + np.uint64(1)
    names = ['pid', 'lagr_pos', 'tagged', 'density', 'lagr_idx']
    full = bitpacked.unpack_pids(packed, box=500.0, ppd=64, float_dtype=np.float32, **ALLF)
    dts = (np.float32,) if run.quick else (np.float32, np.float64)
    for dtype in dts:
        full = bitpacked.unpack_pids(packed, box=500.0, ppd=64, float_dtype=dtype, **ALLF)
        for mask in range(32):
            sel = {n: bool(mask >> i & 1) for i, n in enumerate(names)}
            out = bitpacked.unpack_pids(packed, box=500.0, ppd=64, float_dtype=dtype, **sel)
            run.ev()
            run.nt(('aux_subset', mask, np.dtype(dtype).str))
            want = {n for n in names if sel[n]}
            if set(out) != want:
                run.violation('aux-output-set', dict(requested=sorted(want), got=sorted(out)))
                continue
            for n in want:
                if not np.array_equal(out[n], full[n]):
                    run.violation('aux-subset-dependence', dict(field=n, requested=sorted(want)))
    # unusual but valid containers for the packed words: list, strided view, read-only array; ppd as float
    base = bitpacked.unpack_pids(packed, box=500.0, ppd=64, float_dtype=np.float32, **ALLF)
    strided = np.zeros(2 * len(packed), dtype=np.uint64)
    strided[::2] = packed
    ro = packed.copy()
    ro.flags.writeable = False
    # (words stored in the other byte order, as a FITS / big-endian file column hands them over, are the same integers)
    swapped_u, swapped_i = packed.astype(packed.dtype.newbyteorder()), packed.view(np.int64).astype(np.dtype(np.int64).newbyteorder())
    for label, arg, ppd in (('list', [int(x) for x in packed[:200]], 64), ('strided', strided[::2], 64), ('readonly', ro, 64), ('float-ppd', packed, 64.0), ('numpy-int-ppd', packed, np.int64(64)), ('other-byte-order-u8', swapped_u, 64), ('other-byte-order-i8', swapped_i, 64), ('native-i8', packed.view(np.int64), 64)):
        run.ev()
        run.nt(('aux_container', label))
        try:
            out = bitpacked.unpack_pids(arg, box=500.0, ppd=ppd, float_dtype=np.float32, **ALLF)
        except Exception as e:
            run.violation('aux-container-rejected', dict(container=label, error=f'{type(e).__name__}: {e}'[:200]))
            continue
        n = len(arg)
        if any(not np.array_equal(out[k], base[k][:n]) for k in out):
            run.violation('aux-container-dependence', dict(container=label))
    # ppd given as a float a few ulp (or 1e-9 relative) off an integer, as NP**(1/3) or a float header value produces:
    # the decoder accepts it as that integer (isclose), so the result must be the integer's result, not ppd-1's
    few = packed[:400]
    for P in (64, 1728, 6912, 3456, 2304, 1152, 9, 100):
        ref_lp = bitpacked.unpack_pids(few, box=500.0, ppd=P, float_dtype=np.float64, lagr_pos=True)['lagr_pos']
        forms = {'cube-root': float(P**3) ** (1 / 3), 'below': float(np.nextafter(float(P), 0.0)), 'above': float(np.nextafter(float(P), np.inf)), 'rel-1e-9-below': P * (1 - 1e-9), 'rel-1e-9-above': P * (1 + 1e-9), 'np.float32': np.float32(P)}
        for label, val in forms.items():
            run.ev()
            run.nt(('aux_near_int_ppd', P, label))
            try:
                got = bitpacked.unpack_pids(few, box=500.0, ppd=val, float_dtype=np.float64, lagr_pos=True)['lagr_pos']
            except ValueError:
                run.count('aux_near_int_ppd_rejected')  # refusing is not a wrong value
                continue
            if not np.allclose(got, ref_lp, rtol=0, atol=0.01 * 500.0 / P):  # 1% of a lattice spacing: far above the 1e-9 relative spread of the accepted forms, far below an off-by-one ppd
                run.violation('aux-near-integer-ppd', dict(ppd=repr(val), form=label, intended=P, max_abs_diff=float(np.abs(got - ref_lp).max()), lattice_spacing=500.0 / P))
    w3 = rng.integers(0, 1 << 32, (500, 3), dtype=np.uint64).astype(np.uint32).view(np.int32)
    refp, refv = bitpacked.unpack_rvint(w3, 500.0)
    big = np.zeros((500, 6), dtype=np.int32)
    big[:, ::2] = w3
    wro = w3.copy()
    wro.flags.writeable = False
    for label, arg in (('strided', big[:, ::2]), ('readonly', wro), ('fortran', np.asfortranarray(w3))):
        run.ev()
        run.nt(('rv_container', label))
        try:
            p, v = bitpacked.unpack_rvint(arg, 500.0)
        except Exception as e:
            run.count('rvint_container_rejected_' + label)  # a refusal is not a wrong result
            continue
        if not (np.array_equal(p, refp) and np.array_equal(v, refv)):
            run.violation('rvint-container-dependence', dict(container=label))
    # results handed out earlier stay what they were: a later call (same length, same dtype, other words) must not reach into them
    for dtype in (np.float32, np.float64):
        wa = rng.integers(0, 1 << 32, (700, 3), dtype=np.uint64).astype(np.uint32).view(np.int32)
        wb = rng.integers(0, 1 << 32, (700, 3), dtype=np.uint64).astype(np.uint32).view(np.int32)
        pa = rng.integers(0, 1 << 63, 700, dtype=np.uint64)
        pb = rng.integers(0, 1 << 63, 700, dtype=np.uint64)
        held = [('rvint', bitpacked.unpack_rvint(wa, 500.0, float_dtype=dtype)), ('pids', tuple(bitpacked.unpack_pids(pa, box=500.0, ppd=64, float_dtype=dtype, **ALLF).values()))]
        snap = [[np.array(a, copy=True) for a in h] for _, h in held]
        for shorter in (0, 13):
            bitpacked.unpack_rvint(wb[shorter:], 500.0, float_dtype=dtype)
            bitpacked.unpack_pids(pb[shorter:], box=500.0, ppd=64, float_dtype=dtype, **ALLF)
            run.ev()
            run.nt(('held_results', np.dtype(dtype).str, shorter))
            for (label, h), sn in zip(held, snap):
                run.count('earlier_results_rechecked', len(h))
                if any(not np.array_equal(a, b, equal_nan=True) for a, b in zip(h, sn)):
                    run.violation('earlier-result-changed-by-later-call', dict(routine=label, dtype=np.dtype(dtype).str, later_call_shorter_by=shorter))
    # several Python threads decoding different words at the same time (a thread pool over files): each gets the decode of its own words
    import threading

    nth = 8
    tw = [rng.integers(0, 1 << 32, (60000 + 1000 * i, 3), dtype=np.uint64).astype(np.uint32).view(np.int32) for i in range(nth)]
    tp = [rng.integers(0, 1 << 63, 50000 + 777 * i, dtype=np.uint64) for i in range(nth)]
    quiet = [(bitpacked.unpack_rvint(tw[i], 2000.0, float_dtype=np.float32), bitpacked.unpack_pids(tp[i], box=2000.0, ppd=1728, float_dtype=np.float32, **ALLF)) for i in range(nth)]
    for rep in range(2 if run.quick else 20):
        res = [None] * nth
        bar = threading.Barrier(nth)

        def work(i):
            bar.wait()
            try:
                res[i] = (bitpacked.unpack_rvint(tw[i], 2000.0, float_dtype=np.float32), bitpacked.unpack_pids(tp[i], box=2000.0, ppd=1728, float_dtype=np.float32, **ALLF))
            except Exception as e:  # noqa
                res[i] = e

        ths = [threading.Thread(target=work, args=(i,)) for i in range(nth)]
        [t.start() for t in ths]
        [t.join() for t in ths]
        run.ev()
        run.nt(('concurrent-callers', rep))
        for i in range(nth):
            run.count('concurrent_decodes_checked', 2)
            if isinstance(res[i], Exception):
                run.violation('concurrent-callers', dict(problem=f'{type(res[i]).__name__}: {res[i]}'[:200], threads=nth))
                break
            same_rv = all(np.array_equal(a, b) for a, b in zip(res[i][0], quiet[i][0]))
            same_p = all(np.array_equal(res[i][1][k_], quiet[i][1][k_]) for k_ in quiet[i][1])
            if not (same_rv and same_p):
                run.violation('concurrent-callers', dict(problem='a thread\'s result differs from the quiet decode of its own words', routine='unpack_rvint' if not same_rv else 'unpack_pids', threads=nth, thread=i))
                break
    # box / ppd omitted when no position is requested: every other field as with them
    for sel in (dict(pid=True), dict(tagged=True, density=True), dict(lagr_idx=True, pid=True, tagged=True, density=True)):
        run.ev()
        run.nt(('aux_no_box_ppd', tuple(sorted(sel))))
        try:
            out = bitpacked.unpack_pids(packed, float_dtype=np.float32, **sel)
        except Exception as e:
            run.violation('aux-defaults-rejected', dict(requested=sorted(sel), error=f'{type(e).__name__}: {e}'[:200]))
            continue
        if set(out) != set(sel) or any(not np.array_equal(out[n], base[n]) for n in out):
            run.violation('aux-subset-dependence', dict(requested=sorted(sel), problem='differs when box/ppd are left out'))
    for bad_kw, label in ((dict(box=500.0), 'ppd missing'), (dict(box=500.0, ppd=64.5), 'ppd not integral'), (dict(ppd=64), 'box missing')):
        run.ev()
        try:
            bitpacked.unpack_pids(packed[:3], lagr_pos=True, **bad_kw)
            run.count('aux_invalid_lattice_accepted')  # informational: the statement does not say such a call must be refused
        except ValueError:
            run.count('aux_invalid_lattice_rejected')
    # box/ppd errors and defaults
    try:
        bitpacked.unpack_pids(packed[:3], lagr_pos=True)
        run.count('aux_missing_box_accepted')  # informational (see above)
    except ValueError:
        run.count('aux_missing_box_rejected')
    out = bitpacked.unpack_pids(np.zeros(0, dtype=np.uint64), box=1.0, ppd=4, **ALLF)
    run.ev()
    if out['lagr_pos'].shape != (0, 3) or out['pid'].shape != (0,):
        run.violation('aux-shape', dict(problem='empty input'))
    # empty_bitpacked_arrays
    for ub in (True, False, 'pid', 'packedpid', ['lagr_pos', 'density'], ['tagged', 'lagr_idx', 'pid'], bitpacked.PID_FIELDS):
        for dtype in (np.float32, np.float64):
            arrs = bitpacked.empty_bitpacked_arrays(11, ub, float_dtype=dtype)
            run.ev()
            want = bitpacked.PID_FIELDS if ub is True else (['pid'] if ub is False else ([ub] if isinstance(ub, str) else list(ub)))
            exp = dict(pid=((11,), np.int64), lagr_pos=((11, 3), dtype), lagr_idx=((11, 3), np.int16), tagged=((11,), np.uint8), density=((11,), dtype), packedpid=((11,), np.uint64))
            run.nt(('empty_arrays', repr(ub), np.dtype(dtype).str))
            if set(arrs) != set(want) or any(arrs[k].shape != exp[k][0] or arrs[k].dtype != exp[k][1] for k in arrs):
                run.violation('aux-empty-arrays', dict(unpack_bits=repr(ub), got={k: (v.shape, str(v.dtype)) for k, v in arrs.items()}))


def check_through_catalog(run):
    """The decoders as the halo-catalogue loader drives them: preallocated per-field output views that are advanced halo by halo
    (own particles, then merged ones).  Every word of the generated files carries a tag, so each decoded field of each row is
    compared with the reference decoding of the word that belongs there."""
    import shutil

    from .. import catoracle, gen_catalog

    catoracle.fast_io()
    rng = run.rng(8)
    for k in range(3 if run.quick else 40):
        T = gen_catalog.make_tree(rng, nslab=2, halos_per_slab=[int(rng.integers(5, 25)) for _ in range(2)], box=[500.0, 2000.0][k % 2], ppd=[64, 6912][k % 2], merge_prob=0.8, cleaned_away_prob=0.1)
        try:
            for cleaned in (True, False):
                for ub in (True, ['density'], ['tagged', 'density', 'lagr_idx'], ['lagr_pos', 'pid']):
                    desc = dict(through='CompaSOHaloCatalog', cleaned=cleaned, unpack_bits=ub, tree=k)
                    run.ev()
                    run.progress(desc)
                    cat, err = catoracle.load(T['path'], cleaned=cleaned, subsamples=dict(A=True, B=True, rv=True, pid=True), unpack_bits=ub, fields=['N'])
                    if err is not None:
                        run.violation('catalog-decode-load-fails', dict(error=f'{type(err).__name__}: {err}'[:200], **desc))
                        continue
                    run.nt(('catalog', k, cleaned, repr(ub)))
                    run.count('catalog_loads')
                    catoracle.check_subsamples(run, cat, T, T['slab_inds'], cleaned, ['A', 'B'], desc=desc, key_prefix='catalog-decode')
        finally:
            shutil.rmtree(T['root'], ignore_errors=True)


def check_through_read_asdf(run):
    """The same decoders as read_asdf drives them (table-owned output buffers, one or both of pos / vel, any subset of the aux fields)."""
    import shutil
    import tempfile

    from abacusnbody.data import read_abacus as RA

    from . import c16

    rng = run.rng(9)
    d = tempfile.mkdtemp(prefix='verif_c04_')
    try:
        for k, (ftype, N) in enumerate((('rvint', 300), ('packedpid', 300), ('rvint', 1), ('pid', 77))):
            fn, data, hdr = c16.make_file(rng, d, ftype, N, ['snapshot', 'lightcone'][k % 2], None, 40 + k)
            loads = (['pos'], ['vel'], ['pos', 'vel'], ['vel', 'pos']) if ftype == 'rvint' else (['pid'], ['lagr_pos'], ['density', 'tagged'], ['lagr_idx', 'pid', 'density'], ['aux', 'pid'], c16.PIDCOLS)
            for load in loads:
                for dtype in (np.float32, np.float64):
                    desc = dict(through='read_asdf', file_type=ftype, N=N, load=load, dtype=np.dtype(dtype).str)
                    run.ev()
                    run.progress(desc)
                    try:
                        t = RA.read_asdf(fn, load=load, dtype=dtype, verbose=False)
                    except Exception as e:
                        run.violation('read-asdf-decode-raises-' + type(e).__name__, dict(error=str(e)[:200], **desc))
                        continue
                    run.nt(('read_asdf', ftype, tuple(load), desc['dtype']))
                    run.count('read_asdf_tables')
                    c16.check_table(run, t, ftype, data, hdr, load, dtype, desc)
    finally:
        shutil.rmtree(d, ignore_errors=True)


def check(run):
    from abacusnbody.data import bitpacked

    if not core.poison_self_test():
        run.count('poison_inactive')
    check_rvint_sweep(run, bitpacked)
    check_rvint_roundtrip(run, bitpacked)
    check_rvint_output_modes(run, bitpacked)
    check_aux(run, bitpacked)
    check_through_catalog(run)
    check_through_read_asdf(run)
    if not run.quick:
        check_rvint_exhaustive(run)


def replay(run, data):
    check(run)
