"""C05 — halo statistics are unpacked into consistent physical units.

Reference model = a classification table of the halo columns written from the HaloStat struct
documentation; each loaded column is related to the *raw stored arrays* of the generated files and
to its convert_units=False counterpart under varied (BoxSize, VelZSpace_to_kms) pairs."""

import re
import os
import shutil
import tempfile

import numpy as np

from .. import catoracle, gen_catalog

LEVEL = 'exploration'
RULE = (
    'generated trees with (BoxSize, VelZSpace_to_kms) differing by >=3x in either direction, int16 ratios over the full range incl. 0,+-1,32000,32767,-32768; '
    'cleaned on/off; fields="all" and single-column loads; light-cone layout. Every row of every column is checked for (a) conversion off = stored value '
    '(ratio columns: i16/32000 x stored base), (b) conversion on = off x unit factor of its class, (c) Min^2+Mid^2+Maj^2 = sigmav3d^2 in the same units where defined. '
    'non-trivial = distinct (tree, cleaned, column) triples with BoxSize != VelZSpace_to_kms and >= 2 rows'
)
RULE += (
    ' Added after seeded round 9: catalogues of several equal-sized files; every multi-file tree also loaded as an explicit file list in descending superslab order.'
)
ASSUMPTIONS = [
    'float32 arithmetic: relations compared at relative 2e-6 (columns are float32 products of 2-4 float32/float64 factors); quadrature identity at relative 1e-3',
    "sigman_* is dimensionless in the data model but has always been multiplied by BoxSize by the loader and the statement names no base column: only 'on/off differ by a constant in {1, BoxSize}' is asserted",
    '*_mainprog columns are stored already converted by the cleaning pipeline: unchanged',
]

# consecutive entries also repeat a BoxSize with another velocity scale and vice versa: loader state must not leak between catalogues
PAIRS = [(1.0, 1234.0), (500.0, 37.0), (500.0, 911.0), (2000.0, 911.0), (2000.0, 9.1e4), (123.4, 123.4 * np.pi)]


def classify_column(name):
    """-> (class, base raw column or None).  Classes: length, velocity, ratio_len, ratio_vel, ratio_len3, sigman, mid, unchanged"""
    m = re.fullmatch(r'(r\d{1,2}|rvcirc_max)(_(?:L2)?com)', name)
    if m:
        return 'ratio_len', ('r100' + m[2], name + '_i16')
    m = re.fullmatch(r'sigmav(Min|Maj|rad|tan)(_(?:L2)?com)', name)
    if m:
        stem = {'Min': 'sigmavMin', 'Maj': 'sigmavMax', 'rad': 'sigmavrad', 'tan': 'sigmavtan'}[m[1]]
        return 'ratio_vel', ('sigmav3d' + m[2], f'{stem}_to_sigmav3d{m[2]}_i16')
    m = re.fullmatch(r'sigmavMid(_(?:L2)?com)', name)
    if m:
        return 'mid', m[1]
    m = re.fullmatch(r'sigmar(_(?:L2)?com)', name)
    if m:
        return 'ratio_len3', ('r100' + m[1], name + '_i16')
    m = re.fullmatch(r'sigman(_(?:L2)?com)', name)
    if m:
        return 'sigman', (None, name + '_i16')
    if re.fullmatch(r'(x|r100)(_(?:L2)?com)', name) or re.fullmatch(r'SO(?:_L2max)?(?:_central_particle|_radius)', name):
        return 'length', name
    if re.fullmatch(r'(v|sigmav3d|meanSpeed|sigmav3d_r50|meanSpeed_r50|vcirc_max)(_(?:L2)?com)', name):
        return 'velocity', name
    if 'eigenvecs' in name:
        return 'eigen', None
    return 'unchanged', name


def relclose(a, b, rtol):
    a = np.asarray(a, dtype=np.float64)
    b = np.asarray(b, dtype=np.float64)
    return np.abs(a - b) <= rtol * np.maximum(np.abs(a), np.abs(b)) + 1e-37


def check_catalog_pair(run, truth, slabs, cleaned, on, off, desc, lc=False):
    box, velz = truth['box'], truth['velz']
    rawcat = {}

    def raw(col):
        if col not in rawcat:
            if lc:
                rawcat[col] = truth['raw'][col]
            else:
                parts = []
                for s in slabs:
                    S = truth['slabs'][s]
                    parts.append(S['raw'][col] if col in S['raw'] else S['clean'][col])
                rawcat[col] = np.concatenate(parts)
        return rawcat[col]

    def bad(key, col, i, **kw):
        return run.violation(key, dict(column=col, row=int(i), BoxSize=box, VelZSpace_to_kms=velz, **kw, **desc))

    for col in on.halos.colnames:
        if col not in off.halos.colnames:
            run.violation('units-column-set-differs', dict(column=col, **desc))
            continue
        a_on = np.asarray(on.halos[col])
        a_off = np.asarray(off.halos[col])
        cls, info = classify_column(col)
        n = len(a_on)
        if n >= 2 and box != velz:
            run.nt((desc.get('tree'), cleaned, col))
        run.count('columns_checked')
        run.count('rows_checked', n)
        if cls in ('unchanged', 'eigen'):
            if not catoracle.eq_nan(a_on, a_off):
                bad('unitless-column-changed-by-convert-units', col, 0)
            if cls == 'unchanged':
                src = 'N_total' if (col == 'N' and cleaned and not lc) else col
                try:
                    r = raw(src)
                except KeyError:
                    continue
                if col == 'origin':
                    r = r % 3
                if col in ('pos_interp', 'vel_interp'):
                    continue
                if r.shape == a_off.shape and not np.array_equal(r, a_off):
                    i = np.argwhere(r != a_off)[0][0]
                    bad('stored-value-not-returned', col, i)
            continue
        if cls == 'length':
            fac, stored = box, raw(info).astype(np.float64)
        elif cls == 'velocity':
            fac, stored = velz, raw(info).astype(np.float64)
        elif cls in ('ratio_len', 'ratio_len3'):
            fac = box
            base = raw(info[0]).astype(np.float64)
            r16 = raw(info[1]).astype(np.float64)
            stored = r16 / 32000.0 * (base if cls == 'ratio_len' else base[:, None])
        elif cls == 'ratio_vel':
            fac = velz
            stored = raw(info[1]).astype(np.float64) / 32000.0 * raw(info[0]).astype(np.float64)
        elif cls == 'sigman':
            stored = raw(info[1]).astype(np.float64) / 32000.0
            ok1 = relclose(a_off, stored, 2e-6).all()
            ok_on = relclose(a_on, stored, 2e-6).all() or relclose(a_on, stored * box, 2e-6).all()
            if not ok1:
                bad('units-off-not-stored-value', col, 0)
            if not ok_on:
                bad('units-wrong-factor', col, 0, note='sigman: neither 1 nor BoxSize')
            continue
        elif cls == 'mid':
            com = info
            for cat, which in ((on, 'on'), (off, 'off')):
                need = [f'sigmavMin{com}', f'sigmavMaj{com}', f'sigmav3d{com}', col]
                if not all(x in cat.halos.colnames for x in need):
                    continue
                mn, mj, s3, md = (np.asarray(cat.halos[x], dtype=np.float64) for x in need)
                defined = ~np.isnan(md)
                # where the ratios are a valid decomposition the Mid dispersion must be defined
                rmin = raw(f'sigmavMin_to_sigmav3d{com}_i16').astype(np.float64) / 32000
                rmax = raw(f'sigmavMax_to_sigmav3d{com}_i16').astype(np.float64) / 32000
                should = rmin**2 + rmax**2 <= 1 - 1e-3
                if (should & ~defined).any():
                    bad('principal-dispersions-not-in-sigmav3d-units', col, np.argwhere(should & ~defined)[0][0], conversion=which, sigmav3d=float(s3[np.argwhere(should & ~defined)[0][0]]), sigmavMaj=float(mj[np.argwhere(should & ~defined)[0][0]]))
                    break
                lhs = mn**2 + md**2 + mj**2
                okq = relclose(lhs, s3**2, 1e-3) | ~defined | ~should
                run.count('quadrature_rows', int((defined & should).sum()))
                if not okq.all():
                    i = np.argwhere(~okq)[0][0]
                    bad('principal-dispersions-not-in-sigmav3d-units', col, i, conversion=which, sum_of_squares=float(lhs[i]), sigmav3d_squared=float(s3[i] ** 2))
                    break
            # absolute: Mid^2 = sigmav3d^2 (1 - rmin^2 - rmax^2) from the stored values alone (also when Min / Maj were not requested)
            rmin = raw(f'sigmavMin_to_sigmav3d{com}_i16').astype(np.float64) / 32000
            rmax = raw(f'sigmavMax_to_sigmav3d{com}_i16').astype(np.float64) / 32000
            s3raw = raw('sigmav3d' + com).astype(np.float64)
            resid = 1 - rmin**2 - rmax**2
            for arr, fac_, which in ((a_off, 1.0, 'off'), (a_on, velz, 'on')):
                exp2 = (s3raw * fac_) ** 2 * resid
                sure = resid >= 1e-3
                got2 = np.asarray(arr, dtype=np.float64) ** 2
                okm = (np.abs(got2 - exp2) <= 1e-4 * (s3raw * fac_) ** 2 + 1e-30) | ~sure
                run.count('mid_absolute_rows', int(sure.sum()))
                if not np.all(okm[~np.isnan(got2)]) or np.isnan(got2[sure]).any():
                    i = int(np.argwhere(~okm | (np.isnan(got2) & sure))[0][0])
                    bad('principal-dispersions-not-in-sigmav3d-units', col, i, conversion=which, mid_squared=float(got2[i]), expected_from_stored_ratios=float(exp2[i]))
                    break
            # on = off * velocity factor where defined; Mid is a square root of a difference of float32
            # squares, so compare the squares against the scale of sigmav3d^2 (cancellation-safe)
            d = ~np.isnan(a_on) & ~np.isnan(a_off)
            s3on = raw('sigmav3d' + com).astype(np.float64) * velz
            lhs = a_on.astype(np.float64) ** 2
            rhs = (a_off.astype(np.float64) * velz) ** 2
            okf = (np.abs(lhs - rhs) <= 2e-5 * s3on**2) | ~d
            if not okf.all():
                i = int(np.argwhere(~okf)[0][0])
                bad('units-wrong-factor', col, i, on=float(a_on[i]), off=float(a_off[i]), expected_factor=velz, observed_factor=float(a_on[i] / a_off[i]) if a_off[i] else None, sigmav3d_on=float(s3on[i]))
            continue
        else:
            continue
        ok_off = relclose(a_off, stored, 2e-6)
        if not ok_off.all():
            i = np.argwhere(~ok_off)[0]
            bad('units-off-not-stored-value', col, i[0], got=float(a_off[tuple(i)]), stored=float(stored[tuple(i)]))
            continue
        ok_on = relclose(a_on, stored * fac, 2e-6)
        if not ok_on.all():
            i = np.argwhere(~ok_on)[0]
            obs = float(a_on[tuple(i)] / a_off[tuple(i)]) if a_off[tuple(i)] else None
            key = 'sigmav-scaled-by-box' if (cls == 'ratio_vel' and obs is not None and abs(obs - box) <= 1e-4 * box) else 'units-wrong-factor'
            bad(key, col, i[0], on=float(a_on[tuple(i)]), off=float(a_off[tuple(i)]), expected_factor=fac, observed_factor=obs, column_class=cls)


def check(run):
    catoracle.fast_io()
    rng = run.rng(0)
    ntree = 12 if run.quick else 200
    for k in range(ntree):
        box, velz = PAIRS[k % len(PAIRS)]
        lc = k % 6 == 5
        if lc:
            T = gen_catalog.make_lc_tree(rng, H=(3 if k % 12 == 5 else int(rng.integers(2, 40))), box=box, velz=velz, smallratio=bool(k % 2), big_ints=bool(k % 12 == 11))
            slabs = None
        else:
            # per-file halo counts equal to a column's trailing width (3 vector components, nprev=2) make a mis-oriented
            # broadcast of a per-halo factor onto a per-halo vector shape-compatible: give such files their own class
            nslab = int(rng.integers(1, 4))
            hps = [int(rng.choice([0, 1, 2, 3, 3, 4, 9])) for _ in range(nslab)] if k % 4 == 2 else None
            if hps:
                hps[int(rng.integers(0, nslab))] = 3
            equal = k % 8 == 6
            if equal:
                # catalogues of several files that all hold the same number of halos (nothing per-file may survive into the next file
                # just because the shapes agree)
                nslab = max(nslab, 2) + k % 2
                hps = [int(rng.choice([3, 6, 11]))] * nslab
                run.count('catalogues_of_equal_sized_files')
            # every other box-layout catalogue is written at the very same path as the one before it (removed in between): nothing
            # learnt about a path may outlive the files
            reuse = os.path.join(tempfile.gettempdir(), f'verif_c05_samepath_{os.getpid()}') if k % 2 == 0 else None
            if reuse:
                shutil.rmtree(reuse, ignore_errors=True)
                os.makedirs(reuse)
                run.count('catalogues_written_at_a_reused_path')
            T = gen_catalog.make_tree(rng, nslab=nslab, box=box, velz=velz, smallratio=bool(k % 2), halos_per_slab=hps, int_header=bool(k % 3 == 1), big_ints=bool(k % 4 == 3), root=reuse, compression=[None, 'blsc', 'zlib'][k % 3], blsc_block=[64, 16, 256][k % 3])  # blocks far smaller than a column of a few dozen halos
            slabs = T['slab_inds']
        try:
            for cleaned in ((True,) if lc else (True, False)):
                desc = dict(tree=k, cleaned=cleaned, layout='light_cone' if lc else 'box', fields='all')
                run.progress(desc)
                kw = dict(fields='all') if lc else dict(fields='all', cleaned=cleaned)
                # the flag as a bool, or as the 0 / 1 / numpy bool a caller's comparison or config file produces
                t_on, t_off = [(True, False), (1, 0), (np.True_, np.False_), (np.bool_(box > 0), np.bool_(box < 0))][(k + int(cleaned)) % 4]
                desc['flag_types'] = [type(t_on).__name__, type(t_off).__name__]
                on, e1 = catoracle.load(T['path'], convert_units=t_on, **kw)
                off, e2 = catoracle.load(T['path'], convert_units=t_off, **kw)
                run.ev(2)
                if e1 or e2:
                    run.violation('units-load-fails', dict(error=str(e1 or e2)[:200], **desc))
                    continue
                check_catalog_pair(run, T, slabs, cleaned, on, off, desc, lc=lc)
                if not lc:
                    # one list object naming count and cleaning columns, used for the 'on' and then the 'off' load
                    shared = ['N', 'x_com', 'sigmavMid_com'] + (['N_merge', 'is_merged_to'] if cleaned else [])
                    o1, e1 = catoracle.load(T['path'], convert_units=True, cleaned=cleaned, fields=shared)
                    o0, e2 = catoracle.load(T['path'], convert_units=False, cleaned=cleaned, fields=shared)
                    run.ev(2)
                    if e1 or e2:
                        run.violation('units-load-fails', dict(error=f'{type(e1 or e2).__name__}: {e1 or e2}'[:200], fields=list(shared), **{k2: v for k2, v in desc.items() if k2 != 'fields'}))
                    else:
                        check_catalog_pair(run, T, slabs, cleaned, o1, o0, dict(desc, fields='one list object for both loads'), lc=lc)
                if not lc and len(slabs) >= 2:
                    # the files named one by one, last superslab first: each file's rows (also those that come from its cleaning file) follow the list
                    rev = list(slabs)[::-1]
                    flist = [os.path.join(T['path'], 'halo_info', f'halo_info_{s_:03d}.asdf') for s_ in rev]
                    o1, e1 = catoracle.load(flist, convert_units=True, cleaned=cleaned, fields='all')
                    o0, e2 = catoracle.load(list(flist), convert_units=False, cleaned=cleaned, fields='all')
                    run.ev(2)
                    run.count('descending_file_list_loads', 2)
                    if e1 or e2:
                        run.violation('units-load-fails', dict(error=f'{type(e1 or e2).__name__}: {e1 or e2}'[:200], files='explicit list, descending superslab order', **desc))
                    else:
                        check_catalog_pair(run, T, rev, cleaned, o1, o0, dict(desc, files='explicit list, descending superslab order'), lc=lc)
                if k < 2:
                    run.sample(dict(desc, BoxSize=box, VelZSpace_to_kms=velz, columns=len(on.halos.colnames), rows=len(on.halos)))
                # single-column loads of the ratio / derived columns
                names = [c for c in on.halos.colnames if classify_column(c)[0] in ('ratio_vel', 'mid', 'ratio_len', 'ratio_len3', 'sigman')]
                alone = [names[int(j)] for j in rng.choice(len(names), min(len(names), 4 if run.quick else 12), replace=False)]
                alone += [c for c in names if c.startswith('sigmavMid') and c not in alone]  # the column computed from two others that are then only temporaries
                for c in alone:
                    kw1 = dict(fields=[c]) if lc else dict(fields=[c], cleaned=cleaned)
                    o1, e1 = catoracle.load(T['path'], convert_units=True, **kw1)
                    o0, e2 = catoracle.load(T['path'], convert_units=False, **kw1)
                    run.ev(2)
                    if e1 or e2:
                        run.violation('units-load-fails', dict(error=str(e1 or e2)[:200], fields=[c], **{k2: v for k2, v in desc.items() if k2 != 'fields'}))
                        continue
                    # keep only that column (index/cleaning columns may have been added)
                    for cat in (o1, o0):
                        for extra in [x for x in cat.halos.colnames if x != c]:
                            cat.halos.remove_column(extra)
                    check_catalog_pair(run, T, slabs, cleaned, o1, o0, dict(desc, fields=[c]), lc=lc)
                # a ratio / derived column loaded together with the column it is relative to, in both orders
                if k < 2 or k % 10 == 0:
                    for c in names:
                        cls, info = classify_column(c)
                        com = c[c.index('_') :] if cls != 'mid' else info
                        base = info[0] if cls in ('ratio_len', 'ratio_len3', 'ratio_vel') else ('sigmav3d' + com if cls == 'mid' else None)
                        if base is None:
                            continue
                        for req in ([c, base], [base, c]):
                            kw2 = dict(fields=req) if lc else dict(fields=req, cleaned=cleaned)
                            o1, e1 = catoracle.load(T['path'], convert_units=True, **kw2)
                            o0, e2 = catoracle.load(T['path'], convert_units=False, **kw2)
                            run.ev(2)
                            run.count('pair_loads', 2)
                            if e1 or e2:
                                run.violation('units-load-fails', dict(error=str(e1 or e2)[:200], fields=req, **{k2: v for k2, v in desc.items() if k2 != 'fields'}))
                                continue
                            for cat in (o1, o0):
                                for extra in [x for x in cat.halos.colnames if x not in req]:
                                    cat.halos.remove_column(extra)
                            check_catalog_pair(run, T, slabs, cleaned, o1, o0, dict(desc, fields=req), lc=lc)
                if run.too_many():
                    return
        finally:
            shutil.rmtree(T['root'], ignore_errors=True)


def replay(run, data):
    check(run)
