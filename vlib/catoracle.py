"""Oracles over loaded CompaSOHaloCatalog objects, driven by the generator's ground truth."""

import gc
import warnings

import numpy as np

from . import core
from .gen_catalog import expected_particles
from .checks.c04 import ref_pids, ref_rvint


def fast_io():
    """Harness-side speed-ups that do not touch the code under test: skip asdf's schema validation on
    read (the trees are ours) and freeze the current heap so the loader's gc.collect() calls are cheap."""
    import asdf

    asdf.get_config().validate_on_read = False
    gc.collect()
    gc.freeze()


class CallerListMutated(Exception):
    pass


def load(path, **kw):
    """Real loader; returns (cat, None) or (None, exception)."""
    from abacusnbody.data.compaso_halo_catalog import CompaSOHaloCatalog

    if isinstance(kw.get('subsamples'), dict):
        kw['subsamples'] = dict(kw['subsamples'])  # the loader pops keys from the user's dict
    import contextlib
    import io

    snap = list(kw['fields']) if isinstance(kw.get('fields'), list) else None
    with warnings.catch_warnings(), (contextlib.redirect_stdout(io.StringIO()) if kw.get('verbose') else contextlib.nullcontext()):
        warnings.simplefilter('ignore')
        try:
            cat = CompaSOHaloCatalog(path, **kw)
            if snap is not None and list(kw['fields']) != snap:
                # the caller's list is the caller's: a loader that edits it makes the caller's next load ask for something else
                return None, CallerListMutated(f"fields list passed by the caller was changed by the load: {snap[:6]} -> {list(kw['fields'])[:6]}")
            return cat, None
        except Exception as e:  # noqa
            return None, e
        finally:
            # objects created by the JIT since the last freeze would be re-traversed by every one of the
            # loader's gc.collect() calls; keep them out of the collector's way (harness-side only)
            gc.freeze()


def eq_nan(a, b):
    a = np.asarray(a)
    b = np.asarray(b)
    if a.shape != b.shape or a.dtype != b.dtype:
        return False
    if a.dtype.kind == 'f':
        return bool(np.array_equal(a, b, equal_nan=True))
    return bool(np.array_equal(a, b))


def decode_tag_rvint(row):
    """serial number and origin code of a tagged RVint row."""
    x, y = int(row[0]), int(row[1])
    return dict(serial=(x >> 12) & 0xFFFFF, origin=(y >> 12) & 0xFFFFF)


def origin_name(code):
    code -= 1
    return dict(slab=code // 8, AB='AB'[(code % 8) // 2], merged=bool(code % 2))


def check_subsamples(run, cat, truth, slabs, cleaned, load_AB, masks=None, desc=None, key_prefix='subsample', passthrough=False):
    """C01 oracle for one loaded (non light-cone) catalogue.  Returns True if a violation was raised."""
    desc = desc or {}
    halos, sub = cat.halos, cat.subsamples
    box, ppd = truth['box'], truth['ppd']
    offset = 0
    exp_rv, exp_pp = [], []
    nrows = None
    for ab in load_AB:
        exp = expected_particles(truth, slabs, cleaned, ab, masks)
        nrows = len(exp)
        if len(halos) != nrows:
            return run.violation(f'{key_prefix}-halo-rows', dict(rows=len(halos), expected=nrows, **desc))
        lens = np.array([len(r) for r, _ in exp], dtype=np.int64)
        starts = offset + np.concatenate([[0], np.cumsum(lens)[:-1]]) if nrows else np.zeros(0, dtype=np.int64)
        for col, want in ((f'npstart{ab}', starts), (f'npout{ab}', lens)):
            if col not in halos.colnames:
                return run.violation(f'{key_prefix}-index-column-missing', dict(column=col, **desc))
            got = np.asarray(halos[col]).astype(np.int64)
            if not np.array_equal(got, want):
                i = int(np.nonzero(got != want)[0][0])
                return run.violation(f'{key_prefix}-index', dict(column=col, row=i, got=int(got[i]), expected=int(want[i]), **desc))
        offset += int(lens.sum())
        exp_rv += [r for r, _ in exp]
        exp_pp += [p for _, p in exp]
    E_rv = np.concatenate(exp_rv) if exp_rv else np.zeros((0, 3), dtype=np.int32)
    E_pp = np.concatenate(exp_pp) if exp_pp else np.zeros(0, dtype=np.uint64)
    if len(sub.colnames) == 0:
        return run.violation(f'{key_prefix}-no-columns', desc)
    if len(sub) != offset:
        return run.violation(f'{key_prefix}-table-length', dict(length=len(sub), expected=offset, **desc))
    run.count('subsample_rows_checked', offset)
    run.count('halo_slices_checked', (nrows or 0) * len(load_AB))
    pr = ref_pids(E_pp)
    for col in sub.colnames:
        got = np.asarray(sub[col])
        if col in ('pos', 'vel'):
            rp, rvv = ref_rvint(E_rv, box, np.float32)
            ref = rp if col == 'pos' else rvv
            ok = core.ulp_diff_ok(got, ref, 1, np.float32).all(axis=1) if len(got) else np.ones(0, bool)
        elif col == 'rvint':
            ok = (got == E_rv).all(axis=1) if len(got) else np.ones(0, bool)
        elif col == 'packedpid':
            ok = got == E_pp
        elif col in ('pid', 'tagged'):
            ok = got.astype(np.int64) == pr[col]
        elif col == 'density':
            ok = got.astype(np.float64) == pr['density']
        elif col == 'lagr_idx':
            ok = (got.astype(np.int64) == pr['lagr_idx']).all(axis=1) if len(got) else np.ones(0, bool)
        elif col == 'lagr_pos':
            e = pr['lagr_idx'].astype(np.float64) * (box / ppd) - box / 2
            ok = (np.abs(got.astype(np.float64) - e) <= 4 * float(np.spacing(np.float32(box))) + 4 * np.spacing(np.abs(e).astype(np.float32)).astype(np.float64)).all(axis=1) if len(got) else np.ones(0, bool)
        else:
            return run.violation(f'{key_prefix}-unexpected-column', dict(column=col, **desc))
        run.count('subsample_values_compared', got.size)
        if col != 'lagr_idx':
            pc = 0 if got.size == 0 else (core.poison_count(got.reshape(len(got), -1)[:, 0]) if got.ndim > 1 else core.poison_count(got))
            run.count('poison_scans')
            if pc:
                return run.violation(f'{key_prefix}-unwritten-rows', dict(column=col, poisoned_rows=pc, **desc))
        if not ok.all():
            i = int(np.nonzero(~ok)[0][0])
            wit = dict(column=col, row=i, nbad=int((~ok).sum()), got=got[i], **desc)
            # whose particle is it? identify by tag
            lens_all = np.array([len(r) for r in exp_rv])
            hrow = int(np.searchsorted(np.cumsum(lens_all), i, side='right'))
            wit['slice_index'] = hrow
            wit['expected_record'] = dict(decode_tag_rvint(E_rv[i]), **origin_name(decode_tag_rvint(E_rv[i])['origin']))
            if col == 'rvint':
                t = decode_tag_rvint(got[i])
                wit['actual_record'] = dict(t, **(origin_name(t['origin']) if t['origin'] else {}))
            return run.violation(f'{key_prefix}-wrong-particle', wit)
    return False


def check_lc_subsamples(run, cat, L, mask=None, desc=None, key_prefix='lc-subsample'):
    """Light-cone layout: each (kept) halo's slice [npstartA, npstartA+npoutA) holds its own particles."""
    desc = desc or {}
    raw, parts = L['raw'], L['parts']
    keep = np.ones(L['H'], bool) if mask is None else np.asarray(mask, bool)
    rows = np.nonzero(keep)[0]
    h = cat.halos
    if len(h) != len(rows):
        return run.violation(f'{key_prefix}-halo-rows', dict(rows=len(h), expected=len(rows), **desc))
    if 'npstartA' not in h.colnames or 'npoutA' not in h.colnames:
        return False
    for j, r in enumerate(rows):
        a, n = int(h['npstartA'][j]), int(h['npoutA'][j])
        ea, en = int(raw['npstartA'][r]), int(raw['npoutA'][r])
        if n != en:
            return run.violation(f'{key_prefix}-index', dict(row=j, npout=n, expected=en, **desc))
        for col in cat.subsamples.colnames:
            if col not in parts:
                continue
            got = np.asarray(cat.subsamples[col])[a : a + n]
            if not np.array_equal(got, parts[col][ea : ea + en]):
                return run.violation(f'{key_prefix}-wrong-particle', dict(row=j, column=col, **desc))
    run.count('lc_slices_checked', len(rows))
    return False


# ---------------------------------------------------------------------------------------------
# in-situ contracts (icontract) on the real functions, evaluated on every call any workload makes


class ContractBroken(Exception):
    pass


CONTRACT_EVALS = {'cumsum': 0, 'new_indices': 0, 'update_index_cols': 0}
CONTRACT_FAILS = []


def install_contracts():
    """Attach postconditions to util.cumsum (as called by the loader), _compute_new_subsample_indices
    and _update_subsample_index_cols.  Conditions record and return True (a raising contract would
    abort the load it observes); failures are collected in CONTRACT_FAILS."""
    import icontract

    from abacusnbody import util
    from abacusnbody.data import compaso_halo_catalog as chc

    if getattr(chc, '_verif_contracts', False):
        return
    real_cumsum = util.cumsum

    def cumsum_checked(arr, out, initial=False, final=True, offset=0):
        a = np.asarray(arr).copy()
        tot = real_cumsum(arr, out, initial=initial, final=final, offset=offset)
        CONTRACT_EVALS['cumsum'] += 1
        P = np.concatenate([[int(offset)], int(offset) + np.cumsum(a.astype(object))]) if len(a) else np.array([int(offset)], dtype=object)
        exp = list(P[(0 if initial else 1) : (len(a) + 1 if final else len(a))]) if len(a) else ([P[0]] if (initial and final) else [])
        if [int(x) for x in np.asarray(out)] != [int(x) for x in exp] or int(tot) != int(P[-1]):
            CONTRACT_FAILS.append(dict(contract='cumsum', n=len(a), initial=bool(initial), final=bool(final), offset=int(offset), got=[int(x) for x in np.asarray(out)[:6]], expected=[int(x) for x in exp[:6]]))
        return tot

    class _UtilProxy:
        def __getattr__(self, name):
            return cumsum_checked if name == 'cumsum' else getattr(util, name)

    chc.util = _UtilProxy()

    def indices_ok(self, result, load_AB):
        CONTRACT_EVALS['new_indices'] += 1
        prev_end = 0
        for AB in load_AB:
            a = np.asarray(result[AB]).astype(np.int64)
            ok = len(a) == len(self.halos) + 1 and (np.diff(a) >= 0).all() and a[0] == prev_end
            if not ok:
                CONTRACT_FAILS.append(dict(contract='_compute_new_subsample_indices', AB=AB, length=len(a), halos=len(self.halos), first=int(a[0]) if len(a) else None, expected_first=int(prev_end)))
            prev_end = int(a[-1]) if len(a) else prev_end
        return True

    def cols_ok(self, npstartAB_new, load_AB):
        CONTRACT_EVALS['update_index_cols'] += 1
        for AB in load_AB:
            st = np.asarray(self.halos[f'npstart{AB}']).astype(np.int64)
            n = np.asarray(self.halos[f'npout{AB}']).astype(np.int64)
            if not (np.array_equal(st, np.asarray(npstartAB_new[AB]).astype(np.int64)[:-1]) and np.array_equal(st + n, np.asarray(npstartAB_new[AB]).astype(np.int64)[1:])):
                CONTRACT_FAILS.append(dict(contract='_update_subsample_index_cols', AB=AB))
        return True

    C = chc.CompaSOHaloCatalog
    C._compute_new_subsample_indices = icontract.ensure(indices_ok, error=ContractBroken)(C._compute_new_subsample_indices)
    C._update_subsample_index_cols = icontract.ensure(cols_ok, error=ContractBroken)(C._update_subsample_index_cols)
    chc._verif_contracts = True


def report_contracts(run):
    for k, v in CONTRACT_EVALS.items():
        run.count('contract_evaluations_' + k, v)
        CONTRACT_EVALS[k] = 0
    for f in CONTRACT_FAILS[:5]:
        run.violation('contract-' + f['contract'].strip('_').replace('_', '-'), f)
    del CONTRACT_FAILS[:]
