"""Dispatcher: python -m vlib.main <id> [quick|thorough] [--replay file]

The monitor itself runs in a child process so that a crash of the code under test (glibc heap
abort, SIGSEGV in a compiled kernel) is observed and reported instead of killing the verdict."""

import argparse
import importlib
import json
import os
import subprocess
import sys
import time
import traceback

from . import core, cover


def child_main(args):
    pid = args.pid.upper()
    tier = args.tier if args.tier in ('quick', 'thorough') else 'quick'
    seed = int(os.environ.get('VERIF_SEED', '0') or 0)
    replay = None
    if args.replay:
        replay = json.load(open(args.replay))
        seed = int(replay.get('seed', seed))
        tier = replay.get('tier', tier)
    cover.start(os.environ.get('VERIF_REPO', '/repo'))
    try:
        mod = importlib.import_module(f'vlib.checks.{pid.lower()}')
    except ModuleNotFoundError as e:
        print(f'INCONCLUSIVE property={pid}: no monitor module ({e})')
        return core.EXIT_INCONCLUSIVE
    run = core.Run(pid, int(pid[1:]), tier, seed, level=getattr(mod, 'LEVEL', 'exploration'), rule=getattr(mod, 'RULE', ''), replay=replay)
    run.assumptions = list(getattr(mod, 'ASSUMPTIONS', []))
    try:
        if replay is not None and hasattr(mod, 'replay'):
            mod.replay(run, replay)
        else:
            mod.check(run)
    except core.Inconclusive as e:
        run.note_inconclusive(str(e))
    except Exception as e:  # harness failure is never a verdict about the repo
        traceback.print_exc()
        run.note_inconclusive(f'harness error: {type(e).__name__}: {e}')
    try:
        cover.stop()
        files, funcs = anchored(pid)
        files = list(getattr(mod, 'REACH_FILES', files))
        funcs = list(getattr(mod, 'REACH_FUNCTIONS', funcs))
        rep = cover.summarize(cover.report(files, funcs or None))
        if not rep:
            rep = cover.summarize(cover.report(files, None))
        run.extra['statement_reach'] = rep
        if os.environ.get('VERIF_COVER_DUMP'):  # raw per-file line sets, for tools/reach_union.py
            os.makedirs(os.environ['VERIF_COVER_DUMP'], exist_ok=True)
            json.dump(cover.dump(), open(os.path.join(os.environ['VERIF_COVER_DUMP'], f'{pid}.json'), 'w'))
    except Exception as e:  # the reach report is an observation about the workload, never a verdict
        run.extra['statement_reach'] = f'unavailable: {type(e).__name__}: {e}'
    return run.finish()


def anchored(pid):
    """files and function names the property is anchored in (from properties.jsonl)."""
    import re

    files, funcs = [], []
    path = os.path.join(os.environ.get('VERIF_HOME', os.path.dirname(os.path.dirname(__file__))), 'properties.jsonl')
    for line in open(path):
        p = json.loads(line)
        if p['id'] != pid:
            continue
        a = p.get('anchors', {})
        files = [f for f in a.get('files', []) if f.endswith('.py')]
        for m in a.get('mechanism', []):
            where = m.get('where', '')
            if ':' in where:
                for name in re.split(r',| and ', where.split(':', 1)[1]):
                    name = name.strip().split(' ')[0]
                    if re.fullmatch(r'[A-Za-z_][\w.]*', name):
                        funcs.append(name.split('.')[-1])
    return files, funcs


def main():
    ap = argparse.ArgumentParser()
    ap.add_argument('pid')
    ap.add_argument('tier', nargs='?', default=os.environ.get('VERIF_TIER', 'quick'))
    ap.add_argument('--replay', default=None)
    args = ap.parse_args()
    if os.environ.get('VERIF_CHILD') == '1':
        return child_main(args)
    pid = args.pid.upper()
    tier = args.tier if args.tier in ('quick', 'thorough') else 'quick'
    seed = int(os.environ.get('VERIF_SEED', '0') or 0)
    env = dict(os.environ, VERIF_CHILD='1')
    # everything the monitor and the code under test write goes under one private scratch directory that is removed
    # afterwards, also when the child is killed by a crash of the code under test
    import shutil
    import tempfile

    scratch = tempfile.mkdtemp(prefix='verif_run_')
    env['TMPDIR'] = scratch
    prog = os.path.join(scratch, f'verif_progress_{os.getpid()}.json')
    env['VERIF_PROGRESS'] = prog
    t0 = time.time()
    watchdog = int(os.environ.get('VERIF_WATCHDOG_S', '14400'))
    try:
        p = subprocess.run([sys.executable, '-m', 'vlib.main'] + sys.argv[1:], env=env, timeout=watchdog)
        rc = p.returncode
    except subprocess.TimeoutExpired:
        print(f'INCONCLUSIVE property={pid}: watchdog ({watchdog}s) fired')
        return core.EXIT_INCONCLUSIVE
    finally:
        last = None
        if os.path.exists(prog):
            try:
                last = json.load(open(prog))
            except Exception:
                last = None
        shutil.rmtree(scratch, ignore_errors=True)
    if rc in (0, 1, 2):
        return rc
    # the child died: the code under test crashed the process
    run = core.Run(pid, int(pid[1:]), tier, seed)
    run.rule = 'child process crashed; counts are those reported by the child before the crash'
    if last:
        run.evaluations = int(last.get('evaluations', 1)) or 1
        run.nontrivial = set(range(max(2, int(last.get('nontrivial', 2)))))
        run.samples = [last.get('last_case')]
    else:
        run.evaluations = 1
        run.nontrivial = {0, 1}
        run.samples = ['no progress record']
    wit = dict(returncode=rc, signal=(-rc if rc < 0 else None), last_case=(last or {}).get('last_case'))
    if not run.violation('crash-in-code-under-test', wit):
        pass
    return run.finish()


if __name__ == '__main__':
    sys.stdout.reconfigure(line_buffering=True)
    sys.exit(main())
