"""Dispatcher: python -m vlib.main <id> [quick|thorough] [--replay file]"""

import argparse
import importlib
import json
import os
import sys
import traceback

from . import core


def main():
    ap = argparse.ArgumentParser()
    ap.add_argument('pid')
    ap.add_argument('tier', nargs='?', default=os.environ.get('VERIF_TIER', 'quick'))
    ap.add_argument('--replay', default=None)
    args = ap.parse_args()
    pid = args.pid.upper()
    tier = args.tier if args.tier in ('quick', 'thorough') else 'quick'
    seed = int(os.environ.get('VERIF_SEED', '0') or 0)
    replay = None
    if args.replay:
        replay = json.load(open(args.replay))
        seed = int(replay.get('seed', seed))
        tier = replay.get('tier', tier)
    try:
        mod = importlib.import_module(f'vlib.checks.{pid.lower()}')
    except ModuleNotFoundError as e:
        print(f'INCONCLUSIVE property={pid}: no monitor module ({e})')
        return core.EXIT_INCONCLUSIVE
    run = core.Run(pid, int(pid[1:]), tier, seed, level=getattr(mod, 'LEVEL', 'exploration'), rule=getattr(mod, 'RULE', ''), replay=replay)
    run.assumptions = list(getattr(mod, 'ASSUMPTIONS', []))
    try:
        if replay is not None and hasattr(mod, 'replay'):
            mod.replay(run, replay)
        else:
            mod.check(run)
    except core.Inconclusive as e:
        run.note_inconclusive(str(e))
    except Exception as e:  # harness failure is never a verdict about the repo
        traceback.print_exc()
        run.note_inconclusive(f'harness error: {type(e).__name__}: {e}')
    return run.finish()


if __name__ == '__main__':
    sys.stdout.reconfigure(line_buffering=True)
    sys.exit(main())
