"""Verdict / evidence / known-findings plumbing shared by all monitors."""

import json
import os
import re
import sys
import time
import traceback

import numpy as np

HOME = os.environ.get('VERIF_HOME', os.path.dirname(os.path.dirname(os.path.abspath(__file__))))
REPO = os.environ.get('VERIF_REPO', '/repo')
KNOWN_FILE = os.path.join(HOME, 'known_findings.txt')

EXIT_HELD, EXIT_VIOLATION, EXIT_INCONCLUSIVE = 0, 1, 2


def jsonable(o, depth=0):
    """Best-effort conversion of witnesses to JSON."""
    if depth > 8:
        return repr(o)
    if isinstance(o, (str, bool)) or o is None:
        return o
    if isinstance(o, (int, np.integer)):
        return int(o)
    if isinstance(o, (float, np.floating)):
        f = float(o)
        return f if np.isfinite(f) else repr(f)
    if isinstance(o, np.bool_):
        return bool(o)
    if isinstance(o, bytes):
        return o[:64].hex() + ('...' if len(o) > 64 else '')
    if isinstance(o, np.ndarray):
        if o.size > 64:
            return {'shape': list(o.shape), 'dtype': str(o.dtype), 'head': jsonable(o.ravel()[:32].tolist(), depth + 1)}
        return jsonable(o.tolist(), depth + 1)
    if isinstance(o, dict):
        return {str(k): jsonable(v, depth + 1) for k, v in o.items()}
    if isinstance(o, (list, tuple, set, frozenset)):
        return [jsonable(v, depth + 1) for v in o]
    return repr(o)


def load_known():
    """known_findings.txt lines:
    known: property=<id> key=<mechanism> <what fails>
    fixed: property=<id> <commit> key=<mechanism> <what failed>
    Only `known:` lines suppress anything."""
    known, fixed = {}, {}
    if not os.path.exists(KNOWN_FILE):
        return known, fixed
    for line in open(KNOWN_FILE):
        line = line.strip()
        if not line or line.startswith('#'):
            continue
        m = re.match(r'(known|fixed):\s+property=(\S+)\s+(.*)$', line)
        if not m:
            continue
        kind, pid, rest = m.groups()
        mk = re.search(r'key=(\S+)', rest)
        key = mk.group(1) if mk else None
        (known if kind == 'known' else fixed).setdefault(pid, {})[key] = rest
    return known, fixed


class Inconclusive(Exception):
    pass


class Run:
    def __init__(self, pid, pnum, tier, seed, level='exploration', rule='', replay=None):
        self.pid, self.pnum, self.tier, self.seed = pid, pnum, tier, seed
        self.level = level
        self.rule = rule
        self.replay = replay
        self.t0 = time.time()
        self.evaluations = 0
        self.nontrivial = set()
        self.samples = []
        self.max_samples = 6
        self.counters = {}
        self.violations = []  # (key, witness)
        self.known_hits = {}  # key -> count
        self.inconclusive = []
        self.assumptions = []
        self.extra = {}
        self.exhaustive = None
        self.known, self.fixed = load_known()
        self.max_violations = 25
        self.quick = tier == 'quick'

    # ---- randomness
    def rng(self, *idx):
        return np.random.default_rng([self.seed, self.pnum, *[int(i) for i in idx]])

    # ---- accounting
    def ev(self, n=1):
        self.evaluations += int(n)
        self._perturb_environment()

    def _perturb_environment(self):
        """Called before every evaluation: leave numba with some other number of threads in force, as an earlier, unrelated call
        of the package would (several entry points set the count and never restore it).  No property allows a result to depend
        on it: routines with an `nthread` argument set their own count, the others are deterministic functions of their inputs."""
        nb = sys.modules.get('numba')
        if nb is None or os.environ.get('VERIF_NO_PERTURB'):
            return
        self._nperturb = getattr(self, '_nperturb', 0) + 1
        try:
            mx = int(nb.config.NUMBA_NUM_THREADS)
            k = 1 + (self._nperturb * 7 + self.seed * 3) % mx if self._nperturb % 3 else mx
            nb.set_num_threads(k)
            self.counters['evaluations_entered_with_perturbed_thread_count'] = self.counters.get('evaluations_entered_with_perturbed_thread_count', 0) + int(k != mx)
        except Exception:
            pass

    def nt(self, key):
        self.nontrivial.add(key if isinstance(key, (str, int, tuple)) else repr(key))

    def sample(self, obj, force=False):
        if force or len(self.samples) < self.max_samples:
            self.samples.append(jsonable(obj))

    def progress(self, case):
        """Record the case about to be executed, so that a crash of the process is attributed to it."""
        path = os.environ.get('VERIF_PROGRESS')
        if not path:
            return
        try:
            with open(path, 'w') as f:
                json.dump({'evaluations': self.evaluations, 'nontrivial': len(self.nontrivial), 'last_case': jsonable(case)}, f)
        except Exception:
            pass

    def count(self, name, n=1):
        self.counters[name] = self.counters.get(name, 0) + int(n)

    def setmax(self, name, v):
        self.counters[name] = max(self.counters.get(name, v), v)

    def note_inconclusive(self, reason):
        self.inconclusive.append(str(reason))

    # ---- verdicts
    def violation(self, key, witness):
        """key: mechanism key from a deterministic classifier over the witness."""
        kn = self.known.get(self.pid, {})
        if key in kn:
            self.known_hits[key] = self.known_hits.get(key, 0) + 1
            if self.known_hits[key] == 1:
                self.extra.setdefault('known_finding_witnesses', {})[key] = jsonable(witness)
            return False
        self.nviol_total = getattr(self, 'nviol_total', 0) + 1
        perkey = sum(1 for k, _ in self.violations if k == key)
        if perkey < 3 and len(self.violations) < 90:
            self.violations.append((key, jsonable(witness)))
        else:
            self.count('violations_beyond_cap')
        return True

    def too_many(self):
        return getattr(self, 'nviol_total', 0) >= self.max_violations

    # ---- finish
    def finish(self):
        wall = time.time() - self.t0
        cov = {
            'evaluations': int(self.evaluations),
            'distinct_nontrivial': int(len(self.nontrivial)),
            'rule': self.rule,
            'samples': self.samples if self.samples else [],
            'monitor_counters': self.counters,
        }
        if self.exhaustive is not None:
            cov['exhaustive'] = bool(self.exhaustive)
        cov.update(self.extra)
        if self.known_hits:
            cov['known_findings_observed'] = self.known_hits
        if self.inconclusive:
            cov['inconclusive_reasons'] = self.inconclusive[:20]
        nviol = len(self.violations) + self.counters.get('violations_beyond_cap', 0)
        evid = {
            'property_id': self.pid,
            'tier': self.tier,
            'seed': int(self.seed),
            'level': self.level,
            'coverage': cov,
            'assumptions': self.assumptions,
            'wall_s': round(wall, 2),
            'violations': int(nviol),
        }
        if self.violations:
            evid['coverage']['violation_keys'] = sorted({k for k, _ in self.violations})
        os.makedirs(os.path.join(HOME, 'evidence'), exist_ok=True)
        if not self.replay and not os.environ.get('VERIF_NO_EVIDENCE'):
            with open(os.path.join(HOME, 'evidence', f'{self.pid}.json'), 'w') as f:
                json.dump(evid, f, indent=1)
        for key, n in sorted(self.known_hits.items()):
            print(f'KNOWN-FINDING: property={self.pid} key={key} observed={n} {self.known[self.pid][key]}')
        if self.violations:
            os.makedirs(os.environ.get('VERIF_REPLAY_DIR') or os.path.join(HOME, 'replays'), exist_ok=True)
            seen = set()
            for i, (key, wit) in enumerate(self.violations):
                path = os.path.join(os.environ.get('VERIF_REPLAY_DIR') or os.path.join(HOME, 'replays'), f'{self.pid}_{self.tier}_s{self.seed}_{i}.json')
                with open(path, 'w') as f:
                    json.dump({'property_id': self.pid, 'tier': self.tier, 'seed': self.seed, 'key': key, 'witness': wit}, f, indent=1)
                if key not in seen or i < 3:
                    print(f'VIOLATION property={self.pid} replay={path}')
                    print(f'  mechanism={key} witness={json.dumps(wit)[:600]}')
                seen.add(key)
            print(f'{self.pid} {self.tier}: {nviol} violation(s) in {self.evaluations} evaluations, {wall:.1f}s')
            return EXIT_VIOLATION
        if self.inconclusive:
            for r in self.inconclusive[:10]:
                print(f'INCONCLUSIVE property={self.pid}: {r}')
            return EXIT_INCONCLUSIVE
        if self.evaluations == 0 or len(self.nontrivial) < 2:
            print(f'INCONCLUSIVE property={self.pid}: monitor observed too little (evaluations={self.evaluations}, nontrivial={len(self.nontrivial)})')
            return EXIT_INCONCLUSIVE
        print(f'{self.pid} {self.tier}: held on {self.evaluations} evaluations ({len(self.nontrivial)} distinct non-trivial), {wall:.1f}s; counters={json.dumps(self.counters)[:400]}')
        return EXIT_HELD


def fmt_exc(e):
    return ''.join(traceback.format_exception(type(e), e, e.__traceback__))[-1500:]


def ulp_diff_ok(a, b, nulp, dtype):
    """|a-b| <= nulp * spacing(max(|a|,|b|)) in dtype; NaN==NaN."""
    a = np.asarray(a, dtype=np.float64)
    b = np.asarray(b, dtype=np.float64)
    sp = np.spacing(np.maximum(np.abs(a), np.abs(b)).astype(dtype)).astype(np.float64)
    ok = np.abs(a - b) <= nulp * sp
    ok |= np.isnan(a) & np.isnan(b)
    ok |= a == b
    return ok


POISON_BYTE = 0x5A


def poison_prime():
    """numpy recycles small (<1 KiB) data blocks through its own cache without calling malloc, so
    MALLOC_PERTURB_ never sees them.  Fill that cache with poisoned blocks so that a recycled
    block is as recognisable as a fresh one."""
    for size in range(1, 1025):
        tmp = [np.full(size, POISON_BYTE, dtype=np.uint8) for _ in range(9)]
        del tmp


def poison_self_test():
    """MALLOC_PERTURB_=165 must make np.empty come back filled with 0x5A."""
    if os.environ.get('MALLOC_PERTURB_') != '165':
        return False
    ok = True
    poison_prime()
    for n in (7, 100, 1000, 2048, 300000, 6000000):
        a = np.empty(n, dtype=np.uint8)
        ok &= bool((a == POISON_BYTE).all())
    return ok


def poison_count(arr):
    """Number of elements of arr whose every byte is the poison byte."""
    a = np.ascontiguousarray(arr)
    if a.size == 0:
        return 0
    b = a.view(np.uint8).reshape(a.size, a.itemsize) if a.itemsize > 1 else a.view(np.uint8).reshape(a.size, 1)
    return int((b == POISON_BYTE).all(axis=1).sum())
