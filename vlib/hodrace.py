"""prange write-set monitor for the HOD passes (gen_cent / gen_sats).

The interpreted bodies (same code objects) run with numba.prange replaced by the region recorder of
vlib.mas and with numpy's allocation functions returning write-logging arrays, so that every array
created inside the kernel is observed: an element written by two different iterations of one prange
region is a data race under some schedule (decided from one execution, for all schedules), and an
output element written zero or several times in the fill pass breaks "count pass and fill pass
agree"."""

import builtins
import types

import numpy as np

from .mas import RegionRecorder


class RecArr(np.ndarray):
    """ndarray that logs element writes to the recorder (scalar-index writes only)."""

    def __array_finalize__(self, obj):
        self._vid = getattr(obj, '_vid', None)
        self._rec = getattr(obj, '_rec', None)
        self._off = getattr(obj, '_off', 0)
        self._isroot = False  # views (rows, slices) of a recorded array are not tracked for initialisation
        self._rootptr = getattr(obj, '_rootptr', None)  # memory extent and row stride of the array this is a view of (row mode)
        self._rootend = getattr(obj, '_rootend', None)
        self._rootstride = getattr(obj, '_rootstride', None)

    def _abs_rows(self, idx):
        """first-axis rows of the *root* array that an assignment self[idx] = ... touches, or None if self does not live in the
        root's memory (a copy) or the pattern is not understood."""
        if self._rootptr is None or self.ndim == 0 or not self._rootstride:
            return None
        ptr = self.__array_interface__['data'][0]
        if not (self._rootptr <= ptr < self._rootend) and self.size:
            return None
        if self.ndim >= 1 and self.strides[0] != self._rootstride and self.shape[0] > 1:
            return None
        first = idx[0] if isinstance(idx, tuple) and len(idx) else idx
        n0 = self.shape[0]
        if isinstance(first, (int, np.integer)):
            local = np.array([int(first) % max(n0, 1)])
        elif isinstance(first, slice):
            local = np.arange(n0)[first]
        elif first is Ellipsis or (isinstance(first, tuple) and not first):
            local = np.arange(n0)
        elif isinstance(first, np.ndarray) and first.dtype == bool:
            local = np.nonzero(first)[0]
        elif isinstance(first, np.ndarray) and first.dtype.kind in 'iu':
            local = np.asarray(first).ravel() % max(n0, 1)
        else:
            return None
        return (ptr - self._rootptr) // self._rootstride + local

    def __getitem__(self, idx):
        # a scalar read of an element of an np.empty array that nothing has written yet = use of uninitialised memory
        rec = self._rec
        if rec is not None and self._isroot and self._vid.startswith('empty') and isinstance(idx, (int, np.integer)) and self.ndim == 1:
            if (self._vid, int(idx)) not in rec.ever_written:
                rec.uninit_reads.append((self._vid, int(idx), rec.region, rec.iteration))
        return np.ndarray.__getitem__(self, idx)

    def __setitem__(self, idx, val):
        rec = self._rec
        if rec is not None and self._isroot and isinstance(idx, (int, np.integer)):
            rec.ever_written.add((self._vid, int(idx)))
        elif rec is not None and self._isroot and self.ndim == 1:
            rec.ever_written.update((self._vid, int(i)) for i in np.arange(len(self))[idx].ravel())  # slice / mask / fancy assignment
        if rec is not None and rec.iteration is not None and getattr(rec, 'row_mode', False):
            rows = self._abs_rows(idx)
            if rows is not None:
                rest = tuple(int(i) for i in idx[1:]) if isinstance(idx, tuple) and all(isinstance(i, (int, np.integer)) for i in idx[1:]) else ()
                for r in rows:
                    rec.write((self._vid, int(r)) + rest, 1)
                np.ndarray.__setitem__(self, idx, val)
                return
        if rec is not None and rec.iteration is not None:
            if isinstance(idx, tuple):
                key = tuple(int(i) if isinstance(i, (int, np.integer)) else repr(i) for i in idx)
            elif isinstance(idx, (int, np.integer)):
                key = (int(idx),)
            else:
                key = (repr(idx),)
            rec.write((self._vid,) + key, 1)
            rec.nwrites[(self._vid,) + key] = rec.nwrites.get((self._vid,) + key, 0) + 1
        np.ndarray.__setitem__(self, idx, val)


class NpProxy:
    def __init__(self, rec):
        self._rec = rec
        self._n = 0
        self.created = {}

    def _wrap(self, arr, how):
        a = arr.view(RecArr)
        a._vid = f'{how}#{self._n}'
        a._rec = self._rec
        a._isroot = True
        a._rootptr = a.__array_interface__['data'][0]
        a._rootend = a._rootptr + max(a.nbytes, 1)
        a._rootstride = a.strides[0] if a.ndim else None
        self.created[a._vid] = a
        self._n += 1
        return a

    def empty(self, *a, **k):
        return self._wrap(np.empty(*a, **k), 'empty')

    def zeros(self, *a, **k):
        return self._wrap(np.zeros(*a, **k), 'zeros')

    def empty_like(self, *a, **k):
        return self._wrap(np.empty_like(*a, **k), 'empty_like')

    def __getattr__(self, name):
        return getattr(np, name)


class FakeDict(dict):
    """stands in for numba.typed.Dict inside the interpreted kernel (values become plain ndarrays)."""

    @staticmethod
    def empty(key_type=None, value_type=None):
        return FakeDict()

    def __setitem__(self, k, v):
        dict.__setitem__(self, k, np.asarray(v).view(np.ndarray) if isinstance(v, np.ndarray) else v)


class _NumbaProxy:
    """numba as seen by an interpreted kernel: prange is the region recorder; get_thread_id() answers with the
    logical thread that a static schedule would give the current iteration (iterations that share a thread
    are sequential, so only writes from iterations on *different* logical threads can conflict)."""

    def __init__(self, real, rec):
        self._real, self._rec = real, rec

    def __getattr__(self, name):
        if name == 'prange':
            return self._rec.prange
        if name == 'get_thread_id':
            return self._rec.current_tid
        if name == 'get_num_threads':
            return lambda: self._rec.nthread_model
        if name == 'set_num_threads':
            def _set(n):
                self._rec.nthread_model = int(n)
                return self._real.set_num_threads(n)
            return _set
        return getattr(self._real, name)


class ThreadedRecorder(RegionRecorder):
    """Region recorder with a static-schedule model of which logical thread runs which iteration."""

    def __init__(self):
        super().__init__()
        self.nthread_model = 1
        self.tid_of = []  # per region: {iteration: tid}
        self._n_in_region = 0

    def prange(self, *args):
        self.region += 1
        self.regions.append({})
        self.tid_of.append({})
        rng = list(range(*args))
        n = len(rng)
        try:
            for pos, i in enumerate(rng):
                self.iteration = i
                self._tid = pos * self.nthread_model // max(n, 1)
                self.tid_of[self.region][i] = self._tid
                yield i
        finally:
            self.iteration = None

    def current_tid(self):
        return self._tid if self.iteration is not None else 0

    def thread_conflicts(self):
        out = []
        for r, cells in enumerate(self.regions):
            for cell, its in cells.items():
                tids = {self.tid_of[r][i] for i in its}
                if len(tids) > 1:
                    out.append(dict(region=r, cell=[c if isinstance(c, str) else int(c) for c in cell], iterations=sorted(int(i) for i in its)[:6], logical_threads=sorted(tids)[:6]))
        return out


def monitored_threaded(disp):
    import numba

    rec = ThreadedRecorder()
    rec.nwrites = {}
    rec.ever_written = set()
    rec.uninit_reads = []
    npp = NpProxy(rec)
    f = disp.py_func
    g = dict(f.__globals__)
    g.update(numba=_NumbaProxy(numba, rec), np=npp, range=_range)
    nf = types.FunctionType(f.__code__, g, f.__name__, f.__defaults__, f.__closure__)
    nf.__kwdefaults__ = f.__kwdefaults__
    return nf, rec, npp


def _range(*a):
    return builtins.range(*[int(x) for x in a])


def monitored(disp):
    """(callable, recorder, npproxy) for one kernel call."""
    import numba

    rec = ThreadedRecorder()
    rec.nwrites = {}
    rec.ever_written = set()
    rec.uninit_reads = []
    npp = NpProxy(rec)

    def interp(f, inner):
        g = dict(f.__globals__)
        g.update(numba=_NumbaProxy(numba, rec), np=npp, Dict=FakeDict, range=_range)
        if inner:
            # `disp` is a plain Python function (a wrapper put around the compiled kernel): the parallel kernels of its own module that it
            # names are interpreted under the same recorder, so the loops are still observed
            for name in f.__code__.co_names:
                v = f.__globals__.get(name)
                if hasattr(v, 'py_func') and getattr(v, 'targetoptions', {}).get('parallel') and getattr(v.py_func, '__module__', None) == f.__module__:
                    g[name] = interp(v.py_func, False)
        nf = types.FunctionType(f.__code__, g, f.__name__, f.__defaults__, f.__closure__)
        nf.__kwdefaults__ = f.__kwdefaults__
        return nf

    return interp(getattr(disp, 'py_func', disp), not hasattr(disp, 'py_func')), rec, npp


def analyse(rec, npp, out_prefix_lengths=None):
    """-> dict(conflicts=[...], multi_written=[...], unwritten=[...])"""
    conflicts = rec.conflicts()
    res = dict(conflicts=conflicts[:5], nconflicts=len(conflicts), regions=len(rec.regions), cells=sum(len(c) for c in rec.regions))
    # outputs: 1-D arrays created by np.empty whose elements are written in the last region (fill pass)
    multi, unwritten = [], []
    if rec.regions:
        last = rec.regions[-1]
        written = {}
        for cell, its in last.items():
            written.setdefault(cell[0], {})[cell[1:]] = len(its)  # number of distinct iterations that wrote the element (one iteration may legitimately write it twice, e.g. z then its RSD-shifted value)
        for vid, arr in npp.created.items():
            if not vid.startswith('empty#') or arr.ndim != 1 or vid not in written:
                continue
            w = written[vid]
            for i in range(len(arr)):
                n = w.get((i,), 0)
                if n == 0:
                    unwritten.append((vid, i))
                elif n > 1:
                    multi.append((vid, i, n))
    res.update(multi_written=multi[:5], nmulti=len(multi), unwritten=unwritten[:5], nunwritten=len(unwritten), uninit_reads=rec.uninit_reads[:5], nuninit=len(rec.uninit_reads))
    return res


def run_gen_gals_monitored(GH, halo, part, tracers, params, Nthread, enable_ranks, rsd):
    """gen_gals with gen_cent and gen_sats interpreted under the monitor. Returns {kernel: analysis}."""
    out = {}
    orig = (GH.gen_cent, GH.gen_sats, GH.fast_concatenate)
    fc, rc, nc = monitored(GH.gen_cent)
    fs, rs, ns = monitored(GH.gen_sats)

    def fake_concat(a, b, n):
        return np.concatenate([np.asarray(a), np.asarray(b)])

    GH.gen_cent, GH.gen_sats, GH.fast_concatenate = fc, fs, fake_concat
    try:
        GH.gen_gals(halo, part, tracers, params, Nthread, enable_ranks, rsd, False, False)
    finally:
        GH.gen_cent, GH.gen_sats, GH.fast_concatenate = orig
    out['gen_cent'] = analyse(rc, nc)
    out['gen_sats'] = analyse(rs, ns)
    return out
