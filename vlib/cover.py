"""Which statements of the repository's interpreted code did this monitor run actually reach?

sys.monitoring LINE events, each location disabled after its first hit (cost: one callback per distinct
line of the whole process), restricted to files under the repository checkout.  The report is per
*function* of the files a property is anchored in: statement lines reached / total, and the missed
line numbers, so that "the workload never drives this branch" is read off the evidence instead of
being guessed.  Functions compiled by numba never produce events when they run compiled; they are
listed as 'compiled' (they are only line-observable in the interpreted / py_func modes)."""

import ast
import os
import sys

TOOL = 4
_hit = {}
_root = None
_on = False


def start(repo_root):
    global _root, _on
    mon = getattr(sys, 'monitoring', None)
    if mon is None or _on:
        return False
    _root = os.path.realpath(repo_root) + os.sep
    try:
        mon.use_tool_id(TOOL, 'verif_cover')
    except Exception:
        return False

    def on_line(code, line):
        fn = code.co_filename
        if fn.startswith(_root):
            _hit.setdefault(fn, set()).add(line)
        return mon.DISABLE

    mon.register_callback(TOOL, mon.events.LINE, on_line)
    mon.set_events(TOOL, mon.events.LINE)
    _on = True
    return True


def stop():
    global _on
    if not _on:
        return
    mon = sys.monitoring
    mon.set_events(TOOL, 0)
    mon.register_callback(TOOL, mon.events.LINE, None)
    mon.free_tool_id(TOOL)
    _on = False


def merge(other):
    """other: {filename: [lines]} recorded by a child process."""
    for fn, lines in other.items():
        _hit.setdefault(fn, set()).update(lines)


def dump():
    return {fn: sorted(v) for fn, v in _hit.items()}


def _is_jitted(node):
    for d in node.decorator_list:
        src = ast.unparse(d)
        if 'jit' in src or 'vectorize' in src or 'overload' in src:
            return True
    return False


def _stmt_lines(node):
    """{first line: set of lines on which the statement's own (header) code may be reported} for the statements in the
    body of a function (nested defs excluded: reported separately).  A multi-line `if (` header reports its first
    event on the line of the first operand, so a statement counts as reached when any line of its header was hit."""
    out = {}

    def header_lines(st):
        body_first = None
        for fld in ('body', 'orelse', 'finalbody', 'handlers'):
            for b in getattr(st, fld, []) or []:
                if hasattr(b, 'lineno'):
                    body_first = b.lineno if body_first is None else min(body_first, b.lineno)
        end = (body_first - 1) if body_first else getattr(st, 'end_lineno', st.lineno)
        return set(range(st.lineno, max(st.lineno, end) + 1))

    def walk(n, top):
        for ch in ast.iter_child_nodes(n):
            if isinstance(ch, (ast.FunctionDef, ast.AsyncFunctionDef, ast.ClassDef, ast.Lambda)) and not top:
                if isinstance(ch, ast.stmt):
                    out[ch.lineno] = {ch.lineno} | {d.lineno for d in ch.decorator_list}
                continue
            if isinstance(ch, ast.stmt):
                if not (isinstance(ch, ast.Expr) and isinstance(getattr(ch, 'value', None), ast.Constant) and isinstance(ch.value.value, str)):  # docstring
                    if not isinstance(ch, (ast.Global, ast.Nonlocal, ast.Pass)):
                        out[ch.lineno] = header_lines(ch)
            walk(ch, False)

    walk(node, True)
    out.pop(node.lineno, None)
    return out


def report(rel_files, only_functions=None):
    """-> {rel_file: {function: dict(reached, statements, missed=[...], compiled=bool)}}"""
    res = {}
    for rel in rel_files:
        path = os.path.join(_root, rel)
        try:
            tree = ast.parse(open(path).read())
        except Exception:
            continue
        hit = _hit.get(os.path.realpath(path), set()) | _hit.get(path, set())
        funcs = {}

        def visit(n, prefix):
            for ch in ast.iter_child_nodes(n):
                if isinstance(ch, (ast.FunctionDef, ast.AsyncFunctionDef)):
                    name = prefix + ch.name
                    lines = _stmt_lines(ch)
                    got = {ln for ln, span in lines.items() if span & hit}
                    funcs[name] = dict(statements=len(lines), reached=len(got), missed=sorted(set(lines) - got), compiled=_is_jitted(ch))
                    visit(ch, name + '.')
                elif isinstance(ch, ast.ClassDef):
                    visit(ch, prefix + ch.name + '.')
                else:
                    visit(ch, prefix)

        visit(tree, '')
        if only_functions:
            funcs = {k: v for k, v in funcs.items() if any(k == f or k.endswith('.' + f) or k.startswith(f + '.') or ('.' + f + '.') in k for f in only_functions)}
        res[rel] = funcs
    return res


def summarize(rep, max_missed=40):
    """Compact form for the evidence file."""
    out = {}
    for rel, funcs in rep.items():
        for name, r in funcs.items():
            if r['statements'] == 0:
                continue
            key = f'{rel}:{name}'
            if r['compiled'] and r['reached'] == 0:
                out[key] = 'compiled (no line events; observed through its inputs/outputs and the interpreted modes only)'
            else:
                out[key] = dict(reached=r['reached'], statements=r['statements'], missed_lines=r['missed'][:max_missed])
    return out
