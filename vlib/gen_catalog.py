"""Synthetic CompaSO halo-catalogue trees accepted by the real CompaSOHaloCatalog, with ground
truth.  Every raw particle word carries a unique tag so that "which raw record ended up here" is
read off the loaded output instead of inferred.

Layout written:
  <root>/<Sim>/halos/z0.500/halo_info/halo_info_NNN.asdf
  <root>/<Sim>/halos/z0.500/halo_{rv,pid}_{A,B}/halo_{rv,pid}_{A,B}_NNN.asdf
  <root>/cleaning/<Sim>/z0.500/cleaned_halo_info/cleaned_halo_info_NNN.asdf
  <root>/cleaning/<Sim>/z0.500/cleaned_rvpid/cleaned_rvpid_NNN.asdf
Light cone:
  <root>/halo_light_cones/<Sim>/z0.500/lc_halo_info.asdf, lc_pid_rv.asdf
"""

import os
import tempfile

import numpy as np

from .asdfio import write_asdf

NCODES = 65340

# raw halo_info columns: name -> (dtype, tail shape, kind)
def raw_halo_spec():
    spec = {}
    spec['id'] = ('u8', (), 'id')
    for ab in 'AB':
        spec[f'npstart{ab}'] = ('u8', (), 'index')
        spec[f'npout{ab}'] = ('u4', (), 'index')
        spec[f'ntagged{ab}'] = ('u4', (), 'count')
    spec['N'] = ('u4', (), 'count')
    spec['L2_N'] = ('u4', (5,), 'count')
    spec['L0_N'] = ('u4', (), 'count')
    for com in ('com', 'L2com'):
        spec[f'x_{com}'] = ('f4', (3,), 'unitpos')
        spec[f'v_{com}'] = ('f4', (3,), 'unitvel')
        for s in ('sigmav3d', 'meanSpeed', 'sigmav3d_r50', 'meanSpeed_r50', 'vcirc_max'):
            spec[f'{s}_{com}'] = ('f4', (), 'unitvelpos')
        spec[f'r100_{com}'] = ('f4', (), 'unitlen')
        for s in ('sigmavMin_to_sigmav3d', 'sigmavMax_to_sigmav3d', 'sigmavrad_to_sigmav3d', 'sigmavtan_to_sigmav3d'):
            spec[f'{s}_{com}_i16'] = ('i2', (), 'ratio')
        for s in ('sigmav_eigenvecs', 'sigmar_eigenvecs', 'sigman_eigenvecs'):
            spec[f'{s}_{com}_u16'] = ('u2', (), 'euler')
        for r in (10, 25, 33, 50, 67, 75, 90, 95, 98):
            spec[f'r{r}_{com}_i16'] = ('i2', (), 'ratio')
        spec[f'sigmar_{com}_i16'] = ('i2', (3,), 'ratio')
        spec[f'sigman_{com}_i16'] = ('i2', (3,), 'ratio')
        spec[f'rvcirc_max_{com}_i16'] = ('i2', (), 'ratio')
    spec['SO_central_particle'] = ('f4', (3,), 'unitpos')
    spec['SO_central_density'] = ('f4', (), 'density')
    spec['SO_radius'] = ('f4', (), 'unitlen')
    spec['SO_L2max_central_particle'] = ('f4', (3,), 'unitpos')
    spec['SO_L2max_central_density'] = ('f4', (), 'density')
    spec['SO_L2max_radius'] = ('f4', (), 'unitlen')
    return spec


RAW_SPEC = raw_halo_spec()
EDGE_I16 = np.array([0, 1, -1, 32000, -32000, 32767, -32768, 16000, 2], dtype=np.int16)


def _plant(a, values):
    flat = a.reshape(-1)
    k = min(len(flat), len(values))
    if k:
        flat[np.linspace(0, len(flat) - 1, k).astype(int)] = values[:k]


def random_column(rng, n, dtype, tail, kind, smallratio=False):
    shape = (n,) + tail
    if kind == 'unitpos':
        a = rng.uniform(-0.5, 0.5, shape).astype(dtype)
        # the ends of the unit box and zero of either sign are stored values like any other
        _plant(a, [0.5, -0.5, float(np.nextafter(np.float32(0.5), np.float32(0))), 0.0, -0.0, float(np.nextafter(np.float32(-0.5), np.float32(0)))])
        return a
    if kind == 'unitvel':
        a = rng.uniform(-0.01, 0.01, shape).astype(dtype)
        _plant(a, [0.0, -0.0, 0.01, -0.01])
        return a
    if kind == 'unitvelpos':
        return rng.uniform(1e-4, 0.01, shape).astype(dtype)
    if kind == 'unitlen':
        return rng.uniform(1e-4, 0.05, shape).astype(dtype)
    if kind == 'density':
        return rng.uniform(10, 1e4, shape).astype(dtype)
    if kind == 'ratio':
        if smallratio:
            a = rng.integers(0, 18000, shape).astype(dtype)
        else:
            a = rng.integers(-32768, 32768, shape).astype(dtype)
            flat = a.reshape(-1)
            k = min(len(flat), len(EDGE_I16))
            if k:
                flat[rng.choice(len(flat), k, replace=False)] = EDGE_I16[:k]
        return a
    if kind == 'euler':
        return rng.integers(0, NCODES, shape).astype(dtype)
    if kind == 'count':
        return rng.integers(0, 100000, shape).astype(dtype)
    raise KeyError(kind)


def tag_rvint(serial, origin, rng):
    """Unique RVint rows: x word = serial in the 20 position bits and serial%4096 in the velocity
    bits; y word = origin code in the position bits, random velocity bits; z random."""
    n = len(serial)
    x = ((serial.astype(np.int64) & 0xFFFFF) << 12) | (serial.astype(np.int64) % 4096)
    y = ((np.int64(origin) & 0xFFFFF) << 12) | rng.integers(0, 4096, n)
    z = rng.integers(0, 1 << 32, n)
    return np.stack([x, y, z], axis=1).astype(np.uint32).view(np.int32)


def tag_pid(serial, origin, rng):
    """Unique aux words: lagr idx x = serial low 15 bits, y = serial bits 15..29, z = origin code;
    random density / tag / unused bits."""
    s = serial.astype(np.uint64)
    n = len(s)
    w = (s & np.uint64(0x7FFF)) | (((s >> np.uint64(15)) & np.uint64(0x7FFF)) << np.uint64(16)) | (np.uint64(origin & 0x7FFF) << np.uint64(32))
    w |= rng.integers(0, 2, n, dtype=np.uint64) << np.uint64(48)
    w |= rng.integers(0, 1024, n, dtype=np.uint64) << np.uint64(49)
    # unused bits 15, 31, 47, 59-63 set at random: decoders must ignore them
    for b in (15, 31, 47, 59, 60, 63):
        w |= rng.integers(0, 2, n, dtype=np.uint64) << np.uint64(b)
    return w


def origin_code(slab, ab, merged):
    return slab * 8 + (1 if ab == 'B' else 0) * 2 + int(merged) + 1


class Serial:
    def __init__(self):
        self.n = 1

    def take(self, k):
        a = np.arange(self.n, self.n + k, dtype=np.int64)
        self.n += k
        return a


def DECOY_HEADER(box, velz):
    """Other scale-like entries real headers carry (the hMpc=0 variant: BoxSize is in Mpc, BoxSizeHMpc differs from it).
    None of them is the unit of a halo column."""
    return dict(BoxSizeHMpc=float(box) * 0.6736, BoxSizeMpc=float(box), hMpc=0, H0=67.36, VelZSpace_to_Canonical=float(velz) / 3.0, ParticleMassHMsun=2.1e9, ParticleMassMsun=3.1e9, InitialRedshift=99.0, ScaleFactor=1 / 1.5, NP=64**3)


def make_tree(rng, nslab=3, slab_inds=None, halos_per_slab=None, box=500.0, velz=1234.5, ppd=64, nprev=2, compression=None, gap_prob=0.5, zero_part_prob=0.15, cleaned_away_prob=0.15, merge_prob=0.4, trailing=True, sim='SimA', smallratio=False, root=None, max_np=12, int_header=False, clean_layout=1, big_ints=False, giant=None, blsc_block=None, ppd_form=None):
    root = root or tempfile.mkdtemp(prefix='verif_cat_')
    if slab_inds is None:
        slab_inds = list(range(nslab))
    if halos_per_slab is None:
        halos_per_slab = [int(rng.integers(0, 30)) for _ in slab_inds]
    # the four documented layouts of the cleaning tree (see _setup_file_paths)
    if clean_layout == 2:
        zdir = os.path.join(root, 'subsuite', sim, 'halos', 'z0.500')
        cdir = os.path.join(root, 'cleaning', 'subsuite', sim, 'z0.500')
        cleanroot = os.path.join(root, 'cleaning')
    elif clean_layout in (3, 4):
        zdir = os.path.join(root, sim, 'halos', 'z0.500')
        cdir = os.path.join(root, sim, 'cleaning', 'z0.500')
        cleanroot = os.path.join(root, sim, 'cleaning')
    else:
        zdir = os.path.join(root, sim, 'halos', 'z0.500')
        cdir = os.path.join(root, 'cleaning', sim, 'z0.500')
        cleanroot = os.path.join(root, 'cleaning')
    sub_hi, sub_rp = ((), ()) if clean_layout == 4 else (('cleaned_halo_info',), ('cleaned_rvpid',))
    # headers written by other tools may hold integral values as ints
    header = dict(BoxSize=(int(box) if int_header and float(box).is_integer() else float(box)), VelZSpace_to_kms=(int(velz) if int_header and float(velz).is_integer() else float(velz)), ppd=(float(ppd**3) ** (1 / 3.0) if ppd_form == 'cube-root' else float(ppd)), SimName=sim, Redshift=0.5, OutputType='GroupOutput', ParticleSubsampleA=0.03, ParticleSubsampleB=0.07, CPD=15, **DECOY_HEADER(box, velz))
    cheader = dict(header, TimeSliceRedshiftsPrev=[0.6 + 0.1 * i for i in range(nprev)])
    serial = Serial()
    truth = dict(root=root, path=zdir, cleandir=cleanroot, clean_layout=clean_layout, header=header, slab_inds=list(slab_inds), slabs={}, box=box, velz=velz, ppd=ppd, nprev=nprev, sim=sim)
    next_id = 1000
    for slab, H in zip(slab_inds, halos_per_slab):
        raw = {}
        for name, (dt, tail, kind) in RAW_SPEC.items():
            if kind in ('id', 'index'):
                continue
            raw[name] = random_column(rng, H, dt, tail, kind, smallratio=smallratio)
        raw['id'] = (np.arange(H, dtype=np.uint64) + np.uint64(next_id + slab * 10**6)).astype(np.uint64)
        clean = {}
        cleaned_away = rng.random(H) < cleaned_away_prob
        parts = {}
        cparts = {}
        for ab in 'AB':
            npout = rng.integers(1, max_np, H).astype(np.uint32)
            npout[rng.random(H) < zero_part_prob] = 0
            if giant and H and slab == slab_inds[0]:
                npout[H // 2] = giant + (7 if ab == 'B' else 0)  # one halo with more than 2^16 subsample particles of its own
            gaps = np.where(rng.random(H) < gap_prob, rng.integers(1, 6, H), 0)
            start = np.zeros(H, dtype=np.uint64)
            off = 0
            for h in range(H):
                off += int(gaps[h])
                start[h] = off
                off += int(npout[h])
            total = off + (int(rng.integers(0, 7)) if trailing else 0)
            ser = serial.take(total)
            parts[ab] = dict(rvint=tag_rvint(ser, origin_code(slab, ab, False), rng), packedpid=tag_pid(ser, origin_code(slab, ab, False), rng), serial=ser)
            raw[f'npstart{ab}'] = start
            raw[f'npout{ab}'] = npout
            # merged particles
            mout = np.where(rng.random(H) < merge_prob, rng.integers(1, max_np, H), 0).astype(np.uint32)
            mout[cleaned_away] = 0
            mgaps = np.where(rng.random(H) < gap_prob, rng.integers(1, 4, H), 0)
            mstart = np.zeros(H, dtype=np.int64)
            off = 0
            for h in range(H):
                off += int(mgaps[h])
                mstart[h] = off
                off += int(mout[h])
            mtotal = off + (int(rng.integers(0, 4)) if trailing else 0)
            ser = serial.take(mtotal)
            cparts[ab] = dict(rvint=tag_rvint(ser, origin_code(slab, ab, True), rng), packedpid=tag_pid(ser, origin_code(slab, ab, True), rng), serial=ser)
            clean[f'npstart{ab}_merge'] = mstart
            clean[f'npout{ab}_merge'] = mout
        raw['N'] = (raw['npoutA'].astype(np.int64) + raw['npoutB'] + rng.integers(0, 500, H)).astype(np.uint32)
        N_merge = (clean['npoutA_merge'].astype(np.int64) + clean['npoutB_merge'] + np.where(clean['npoutA_merge'] > 0, rng.integers(0, 50, H), 0)).astype(np.uint32)
        clean['N_merge'] = N_merge
        if giant and H and slab == slab_inds[0]:
            # ... whose cleaned particle count is an exact multiple of 2^16 (and a second halo with exactly 2^16)
            cleaned_away[H // 2] = False
            raw['N'][H // 2] = np.uint32(3 * 65536 - int(N_merge[H // 2]))
            if H > 2:
                cleaned_away[0] = False
                raw['N'][0] = np.uint32(65536 - int(N_merge[0]))
        clean['N_total'] = np.where(cleaned_away, 0, raw['N'].astype(np.int64) + N_merge).astype(np.uint32)
        clean['haloindex'] = rng.integers(0, 1 << 40, H).astype(np.uint64)
        clean['is_merged_to'] = np.where(cleaned_away, rng.integers(0, 1 << 40, H), -1).astype(np.int64)
        clean['haloindex_mainprog'] = rng.integers(-1, 1 << 40, H).astype(np.int64)
        clean['v_L2com_mainprog'] = rng.uniform(-0.01, 0.01, (H, 3)).astype(np.float32)
        clean['N_mainprog'] = rng.integers(0, 1000, (H, nprev)).astype(np.uint32)
        clean['vcirc_max_L2com_mainprog'] = rng.uniform(0, 0.01, (H, nprev)).astype(np.float32)
        clean['sigmav3d_L2com_mainprog'] = rng.uniform(0, 0.01, (H, nprev)).astype(np.float32)
        if big_ints:  # 64-bit identifiers that no float64 holds exactly (top bit region + odd)
            _big_ints(raw, clean)
            _big_counts(raw, clean)
        next_id += H
        truth['slabs'][slab] = dict(raw=raw, clean=clean, parts=parts, cparts=cparts, H=H, cleaned_away=cleaned_away)
        comp = compression
        ckw = dict(compression_block_size=int(blsc_block)) if (blsc_block and comp == 'blsc') else None  # small blocks: every column is a sequence of many frames
        write_asdf(_mk(zdir, 'halo_info', f'halo_info_{slab:03d}.asdf'), dict(header=header, data=raw), comp, compression_kwargs=ckw)
        for ab in 'AB':
            write_asdf(_mk(zdir, f'halo_rv_{ab}', f'halo_rv_{ab}_{slab:03d}.asdf'), dict(header=header, data=dict(rvint=parts[ab]['rvint'])), comp, compression_kwargs=ckw)
            write_asdf(_mk(zdir, f'halo_pid_{ab}', f'halo_pid_{ab}_{slab:03d}.asdf'), dict(header=header, data=dict(packedpid=parts[ab]['packedpid'])), comp, compression_kwargs=ckw)
        write_asdf(_mk(cdir, *sub_hi, f'cleaned_halo_info_{slab:03d}.asdf'), dict(header=cheader, data=clean), comp, compression_kwargs=ckw)
        write_asdf(
            _mk(cdir, *sub_rp, f'cleaned_rvpid_{slab:03d}.asdf'),
            dict(header=cheader, data=dict(packedpid_A=cparts['A']['packedpid'], packedpid_B=cparts['B']['packedpid'], rvint_A=cparts['A']['rvint'], rvint_B=cparts['B']['rvint'])),
            comp,
            compression_kwargs=ckw,
        )
    truth['halo_fns'] = [os.path.join(zdir, 'halo_info', f'halo_info_{s:03d}.asdf') for s in slab_inds]
    return truth


def _big_counts(raw, clean):
    """particle counts beyond 2^31 (they are unsigned 32-bit on disk)"""
    bump = np.where(np.arange(len(raw['N'])) % 2 == 0, np.uint32(1 << 31), np.uint32(0)).astype(np.uint32)
    raw['N'] = (raw['N'].astype(np.uint32) % np.uint32(1 << 30) + bump).astype(np.uint32)
    clean['N_total'] = np.where(clean['N_total'] > 0, raw['N'].astype(np.int64) + clean['N_merge'].astype(np.int64), 0).astype(np.uint32)


def _big_ints(*tables):
    hi = {'id': np.uint64(1 << 63), 'haloindex': np.uint64(1 << 62), 'is_merged_to': np.int64(1 << 61), 'haloindex_mainprog': np.int64(1 << 60), 'index_halo': np.int64(1 << 62)}
    for t in tables:
        for name, bit in hi.items():
            if name in t:
                a = t[name]
                t[name] = np.where(a >= 0, a | bit | a.dtype.type(1), a).astype(a.dtype) if a.dtype.kind == 'i' else (a | bit | np.uint64(1))


def _mk(*parts):
    d = os.path.join(*parts[:-1])
    os.makedirs(d, exist_ok=True)
    return os.path.join(d, parts[-1])


def expected_particles(truth, slabs, cleaned, ab, masks=None):
    """Expected raw particle words per halo row, for the given slab order and optional per-slab
    boolean row masks.  Returns list over kept halo rows of (rvint rows, packedpid words)."""
    out = []
    for k, slab in enumerate(slabs):
        S = truth['slabs'][slab]
        raw, clean = S['raw'], S['clean']
        keep = np.ones(S['H'], dtype=bool) if masks is None else np.asarray(masks[k], dtype=bool)
        for h in np.nonzero(keep)[0]:
            a, n = int(raw[f'npstart{ab}'][h]), int(raw[f'npout{ab}'][h])
            if cleaned and S['cleaned_away'][h]:
                n = 0
            rv = [S['parts'][ab]['rvint'][a : a + n]]
            pp = [S['parts'][ab]['packedpid'][a : a + n]]
            if cleaned:
                a2, n2 = int(clean[f'npstart{ab}_merge'][h]), int(clean[f'npout{ab}_merge'][h])
                rv.append(S['cparts'][ab]['rvint'][a2 : a2 + n2])
                pp.append(S['cparts'][ab]['packedpid'][a2 : a2 + n2])
            out.append((np.concatenate(rv), np.concatenate(pp)))
    return out


def make_euler_catalog(rng):
    """One superslab whose six *_eigenvecs_*_u16 raw columns each hold every valid code once (permuted)."""
    root = tempfile.mkdtemp(prefix='verif_euler_')
    zdir = os.path.join(root, 'SimE', 'halos', 'z0.500')
    H = NCODES
    header = dict(BoxSize=500.0, VelZSpace_to_kms=1000.0, ppd=64.0, SimName='SimE', Redshift=0.5, OutputType='GroupOutput')
    raw = {}
    for name, (dt, tail, kind) in RAW_SPEC.items():
        if kind == 'euler':
            raw[name] = rng.permutation(H).astype(np.uint16)
    raw['id'] = np.arange(H, dtype=np.uint64)
    write_asdf(_mk(zdir, 'halo_info', 'halo_info_000.asdf'), dict(header=header, data=raw), None)
    return dict(root=root, path=zdir, raw=raw)


def make_euler_files(rng, per_file_codes):
    """Several superslabs; file i's six *_eigenvecs_*_u16 raw columns all hold per_file_codes[i] (degenerate contents allowed)."""
    root = tempfile.mkdtemp(prefix='verif_euler_')
    zdir = os.path.join(root, 'SimE', 'halos', 'z0.500')
    header = dict(BoxSize=500.0, VelZSpace_to_kms=1000.0, ppd=64.0, SimName='SimE', Redshift=0.5, OutputType='GroupOutput')
    allcodes = []
    nid = 0
    for i, codes in enumerate(per_file_codes):
        codes = np.asarray(codes, dtype=np.uint16)
        raw = {name: codes.copy() for name, (dt, tail, kind) in RAW_SPEC.items() if kind == 'euler'}
        raw['id'] = np.arange(nid, nid + len(codes), dtype=np.uint64)
        nid += len(codes)
        write_asdf(_mk(zdir, 'halo_info', f'halo_info_{i:03d}.asdf'), dict(header=header, data=raw), None)
        allcodes.append(codes)
    return dict(root=root, path=zdir, codes=np.concatenate(allcodes) if allcodes else np.zeros(0, dtype=np.uint16))


LC_EXTRA = dict(
    N_interp=('u4', ()),
    index_halo=('i8', ()),
    origin=('i1', ()),
    pos_avg=('f4', (3,)),
    pos_interp=('f4', (3,)),
    vel_avg=('f4', (3,)),
    vel_interp=('f4', (3,)),
    redshift_interp=('f4', ()),
)


def make_lc_tree(rng, H=40, box=2000.0, velz=2087.0, ppd=6912, compression=None, gap_prob=0.4, smallratio=False, nprev=3, big_ints=False, unordered=False):
    """Light-cone layout: one lc_halo_info.asdf + lc_pid_rv.asdf (already unpacked pos/vel/pid)."""
    root = tempfile.mkdtemp(prefix='verif_lc_')
    zdir = os.path.join(root, 'halo_light_cones', 'SimLC', 'z0.500')
    header = dict(BoxSize=float(box), VelZSpace_to_kms=float(velz), ppd=float(ppd), SimName='SimLC', Redshift=0.5, OutputType='GroupOutput', SimSet='AbacusSummit', ParticleSubsampleA=0.03, ParticleSubsampleB=0.07, TimeSliceRedshiftsPrev=[0.6 + 0.1 * i for i in range(nprev)], **DECOY_HEADER(box, velz))
    raw = {}
    for name, (dt, tail, kind) in RAW_SPEC.items():
        if 'L2' in name and kind not in ('id', 'index'):
            raw[name] = random_column(rng, H, dt, tail, kind, smallratio=smallratio)
    raw['N'] = rng.integers(1, 5000, H).astype(np.uint32)
    raw['N_interp'] = rng.integers(1, 5000, H).astype(np.uint32)
    raw['index_halo'] = rng.integers(0, 1 << 40, H).astype(np.int64)
    raw['origin'] = rng.integers(0, 9, H).astype(np.int8)
    raw['pos_avg'] = rng.uniform(-990, 990, (H, 3)).astype(np.float32)
    raw['pos_avg'][rng.random(H) < 0.4] = 0.0
    raw['pos_interp'] = rng.uniform(-990, 990, (H, 3)).astype(np.float32)
    raw['vel_avg'] = rng.uniform(-900, 900, (H, 3)).astype(np.float32)
    raw['vel_interp'] = rng.uniform(-900, 900, (H, 3)).astype(np.float32)
    raw['redshift_interp'] = rng.uniform(0.4, 0.6, H).astype(np.float32)
    raw['haloindex'] = rng.integers(0, 1 << 40, H).astype(np.uint64)
    raw['haloindex_mainprog'] = rng.integers(0, 1 << 40, H).astype(np.int64)
    raw['v_L2com_mainprog'] = rng.uniform(-0.01, 0.01, (H, 3)).astype(np.float32)
    raw['N_mainprog'] = rng.integers(0, 1000, (H, nprev)).astype(np.uint32)
    npout = rng.integers(0, 9, H).astype(np.uint32)
    gaps = np.where(rng.random(H) < gap_prob, rng.integers(1, 4, H), 0)
    start = np.zeros(H, dtype=np.uint64)
    off = 0
    for h in range(H):
        off += int(gaps[h])
        start[h] = off
        off += int(npout[h])
    P = off + 3
    if unordered and H >= 2:
        # halo rows stored in another order than their particle ranges (rows are ordered by light-cone crossing, particles by file),
        # the last row a halo without particles recorded with start 0
        perm = np.random.default_rng(int(H) * 7919 + int(P)).permutation(H)
        start, npout = start[perm], npout[perm]
        start[-1], npout[-1] = 0, 0
    raw['npstartA'] = start
    raw['npoutA'] = npout
    if big_ints:
        _big_ints(raw)
    ser = np.arange(1, P + 1)
    parts = dict(pid=ser.astype(np.int64) * 7 + 3, pos=np.stack([ser, ser + 0.25, -ser], axis=1).astype(np.float32), vel=np.stack([-ser, ser * 2, ser + 0.5], axis=1).astype(np.float32))
    write_asdf(_mk(zdir, 'lc_halo_info.asdf'), dict(header=header, data=raw), compression)
    write_asdf(_mk(zdir, 'lc_pid_rv.asdf'), dict(header=header, data=parts), compression)
    return dict(root=root, path=zdir, raw=raw, parts=parts, header=header, H=H, box=box, velz=velz, ppd=ppd)
