"""ASDF file writing for generated inputs (harness side).  asdf 5.4.0 passes the ndarray rather
than the memoryview it just built to extension compressors, so 'blsc' cannot be written through
the unpatched library; write_asdf patches the *writer* only.  The read path under test is
untouched."""

import contextlib

import asdf
import asdf._compression as _c
import numpy as np


@contextlib.contextmanager
def _patched_writer():
    orig = _c.compress

    def compress(fd, data, compression, config=None):
        compression = _c.validate(compression)
        encoder = _c._get_compressor(compression)
        if config is None:
            config = {}
        view = memoryview(data)
        if not view.contiguous:
            view = memoryview(view.tobytes())
        view = memoryview(np.frombuffer(view, dtype=view.format))
        for comp in encoder.compress(view, **config):
            fd.write(comp)

    _c.compress = compress
    # asdf's block writer imports the module, look the function up at call time
    try:
        yield
    finally:
        _c.compress = orig


def write_asdf(path, tree, compression=None, compression_kwargs=None):
    """compression: None | 'zlib' | 'blsc'"""
    af = asdf.AsdfFile(tree)
    kw = {}
    if compression:
        kw['all_array_compression'] = compression
        if compression_kwargs:
            kw['compression_kwargs'] = compression_kwargs
    if compression == 'blsc':
        with _patched_writer():
            af.write_to(str(path), **kw)
    else:
        af.write_to(str(path), **kw)
    af.close()
