"""Kernel x boundary-class drivers for C11 (run inside sanitized / production child processes).

mode S1: compiled, NUMBA_BOUNDSCHECK=1, NUMBA_NUM_THREADS=1 (every prange iteration on the master thread)
mode S2: interpreted py_func of the parallel kernels (numpy index checks), logical thread counts 1..16;
         callee kernels compiled with bounds checks and called from the main thread
mode S3: production build, all threads, canary red zones; crashes captured by the parent
Only inputs satisfying the documented preconditions are generated."""

import builtins
import os
import types
import warnings

import numpy as np

MODE = os.environ.get('VERIF_OBS', 'S3')
G = 6
CAN = 91.0


def _range(*a):
    return builtins.range(*[int(x) for x in a])


def interp(disp, **over):
    """Interpreted copy of a numba dispatcher: same code object, globals copied with numba-vs-Python
    semantic gaps bridged (range accepting integral floats)."""
    f = getattr(disp, 'py_func', disp)
    g = dict(f.__globals__)
    g['range'] = _range
    g.update(over)
    nf = types.FunctionType(f.__code__, g, f.__name__, f.__defaults__, f.__closure__)
    nf.__kwdefaults__ = f.__kwdefaults__
    return nf


def guarded(shape, dtype, fill=0.0):
    """interior view of a larger canary buffer (all axes padded)"""
    shape = tuple(shape)
    big = np.full(tuple(s + 2 * G for s in shape), CAN, dtype=dtype)
    sl = tuple(slice(G, G + s) for s in shape)
    big[sl] = fill
    return big, big[sl], sl


def canary_ok(big, sl):
    m = np.ones(big.shape, bool)
    m[sl] = False
    return bool((big[m] == np.asarray(CAN, dtype=big.dtype)).all())


# ------------------------------------------------------------------ self test


def selftest(case):
    import numba

    if MODE == 'S3':
        # never perform a real out-of-bounds access in the unsanitized build: it would corrupt the harness's own heap
        return dict(serial='not-run', callee='not-run', prange_iter3='not-run')

    @numba.njit
    def serial_oob(a, i):
        return a[i]

    @numba.njit
    def callee(a, i):
        a[i] = 1.0

    @numba.njit
    def caller(a, i):
        callee(a, i)

    @numba.njit(parallel=True)
    def par_oob(a, n):
        for t in numba.prange(8):
            if t == 3:
                a[n] = 1.0

    out = {}
    a = np.zeros(4)
    for name, fn, args in (('serial', serial_oob, (a, 7)), ('callee', caller, (a, 9)), ('prange_iter3', par_oob, (a, 11))):
        try:
            if MODE == 'S2' and name == 'prange_iter3':
                interp(par_oob)(a, 11)
            else:
                fn(*args)
            out[name] = 'silent'
        except BaseException as e:  # noqa
            from .sandbox import is_index_error

            out[name] = 'index_error' if is_index_error(e) else f'other:{type(e).__name__}'
    return out


# ------------------------------------------------------------------ small kernels (util, bitpacked, pack9)


def k_cumsum(case):
    from abacusnbody.util import cumsum

    N = case['N']
    res = True
    for initial in (False, True):
        for final in (False, True):
            n_out = N - 1 + initial + final
            if n_out < 0:
                continue
            big, out, sl = guarded((n_out,), case.get('dout', 'i8'))
            abig, arr, asl = guarded((N,), case.get('din', 'i8'), fill=1)
            cumsum(arr, out, initial=initial, final=final, offset=3)
            res &= canary_ok(big, sl) and canary_ok(abig, asl)
    return dict(canary_ok=res)


def k_rvint(case):
    from abacusnbody.data import bitpacked

    N = case['N']
    rng = np.random.default_rng(case['seed'])
    w = rng.integers(-(2**31), 2**31, (N, 3)).astype(np.int32)
    ok = True
    for dt in (np.float32, np.float64):
        bitpacked.unpack_rvint(w, 500.0, float_dtype=dt)
        pb, po, psl = guarded((N, 3), dt)
        vb, vo, vsl = guarded((N, 3), dt)
        # supplied outputs of exactly N rows; contiguous inner arrays
        po2, vo2 = np.ascontiguousarray(po), np.ascontiguousarray(vo)
        bitpacked.unpack_rvint(w, 500.0, float_dtype=dt, posout=po2, velout=vo2)
        bitpacked.unpack_rvint(w.reshape(-1), 500.0, float_dtype=dt, posout=po2.reshape(-1), velout=False)
        bitpacked.unpack_rvint(w, 500.0, float_dtype=dt, posout=False, velout=vo2)
    return dict(canary_ok=ok)


def k_pids(case):
    from abacusnbody.data import bitpacked

    N = case['N']
    rng = np.random.default_rng(case['seed'])
    p = rng.integers(0, 2**63, N, dtype=np.uint64)
    for dt in (np.float32, np.float64):
        bitpacked.unpack_pids(p, box=500.0, ppd=64, pid=True, lagr_pos=True, tagged=True, density=True, lagr_idx=True, float_dtype=dt)
        bitpacked.unpack_pids(p, box=500.0, ppd=64, pid=True, float_dtype=dt)
        bitpacked.unpack_pids(p, density=True, tagged=True, float_dtype=dt)
    return dict(canary_ok=True)


def k_pack9(case):
    from abacusnbody.data import pack9

    from .checks import c15

    rng = np.random.default_rng(case['seed'])
    kind = case['kind']
    recs = []
    if kind in ('normal', 'header_only', 'header_last'):
        recs.append(c15.header_record(875, 100, [1, 2, 3]))
    n = dict(empty=0, header_only=0, headerless=5, normal=case.get('N', 7), header_last=3)[kind]
    if n:
        f = rng.integers(0, 4096, (n, 6))
        f[:, 0] = rng.integers(0, 0xFF0, n)
        recs.append(c15.pack_fields(f))
    if kind == 'header_last':
        recs.append(c15.header_record(875, 100, [0, 0, 0]))
    data = np.concatenate(recs) if recs else np.zeros((0, 9), dtype=np.uint8)
    ok = True
    for dt in (np.float32, np.float64):
        pack9.unpack_pack9(data, 2000.0, 1000.0, float_dtype=dt)
        N = len(data)
        po = np.full((N, 3), CAN, dtype=dt)
        vo = np.full((N, 3), CAN, dtype=dt)
        npart, _ = pack9.unpack_pack9(data, 2000.0, 1000.0, float_dtype=dt, posout=po, velout=vo)
        ok &= bool((po[npart:] == CAN).all() and (vo[npart:] == CAN).all())
        pack9.unpack_pack9(data, 2000.0, 1000.0, float_dtype=dt, posout=False)
        pack9.unpack_pack9(data, 2000.0, 1000.0, float_dtype=dt, velout=False)
    return dict(canary_ok=ok)


def k_catalog(case):
    """subsample zipper through real catalogue loads on hazardous trees."""
    import shutil

    from . import catoracle, gen_catalog

    rng = np.random.default_rng(case['seed'])
    kind = case['kind']
    kw = dict(nslab=3)
    if kind == 'empty_superslab':
        kw['halos_per_slab'] = [4, 0, 3]
    elif kind == 'all_empty':
        kw['halos_per_slab'] = [0, 0, 0]
    elif kind == 'zero_particle':
        kw.update(zero_part_prob=1.0, halos_per_slab=[5, 2, 3])
    elif kind == 'cleaned_away':
        kw.update(cleaned_away_prob=1.0, halos_per_slab=[4, 4, 4])
    elif kind == 'no_gaps_no_trailing':
        kw.update(gap_prob=0.0, trailing=False, merge_prob=1.0, halos_per_slab=[6, 1, 2])
    T = gen_catalog.make_tree(rng, **kw)
    catoracle.fast_io()
    errs = []
    try:
        for cleaned in (True, False):
            for sub, ub in ((True, True), (dict(A=True, pid=True), False), (dict(B=True, rv=True), False), (dict(B=True, A=True, pos=True), False), (dict(pid=True, B=True, rv=True, A=True), ['density', 'pid'])):  # key order of the dict is the caller's business
                for filt in (None, 'none', 'half'):
                    ff = None
                    if filt == 'none':
                        ff = lambda h: np.zeros(len(h), bool)  # noqa
                    elif filt == 'half':
                        ff = lambda h: np.arange(len(h)) % 2 == 0  # noqa
                    cat, err = catoracle.load(T['path'], cleaned=cleaned, subsamples=sub, unpack_bits=ub, filter_func=ff)
                    if err is not None:
                        from .sandbox import is_index_error

                        if is_index_error(err):
                            raise err
                        errs.append(f'{type(err).__name__}: {err}'[:120])
    finally:
        shutil.rmtree(T['root'], ignore_errors=True)
    return dict(canary_ok=True, load_errors=errs[:3])


# ------------------------------------------------------------------ tsc / cic


def _positions(rng, kind, N, box, dtype):
    if kind == 'zero':
        p = np.zeros((N, 3))
    elif kind == 'below_box':
        p = np.full((N, 3), float(np.nextafter(dtype(box), dtype(0))))
    elif kind == 'box':
        p = np.full((N, 3), box)
    elif kind == 'mixed_edges':
        p = rng.choice(np.array([0.0, box, float(np.nextafter(dtype(box), dtype(0))), box / 2]), (N, 3))
    else:
        p = rng.uniform(0, box, (N, 3))
    return p.astype(dtype)


def k_tsc(case):
    from abacusnbody.analysis import tsc

    rng = np.random.default_rng(case['seed'])
    shape, box, N = tuple(case['shape']), case['box'], case['N']
    dtype = np.dtype(case['dtype']).type
    pos = _positions(rng, case['pos'], N, box, dtype)
    w = None if not case.get('weights') else rng.uniform(0, 2, N).astype(dtype)
    big, grid, sl = guarded(shape, np.float64)
    nthread = case['nthread']
    offset = case.get('offset_cells', 0.0) * box / shape[0]
    kw = dict(weights=w, nthread=nthread, wrap=case.get('wrap', True), npartition=case.get('npartition'), sort=case.get('sort', False), coord=case.get('coord', 0), offset=offset)
    with warnings.catch_warnings():
        warnings.simplefilter('ignore')
        if MODE == 'S2':
            orig = (tsc._tsc_parallel, tsc.partition_parallel, tsc._wrap_inplace)
            tsc._tsc_parallel = interp(tsc._tsc_parallel)
            tsc.partition_parallel = interp(tsc.partition_parallel)
            tsc._wrap_inplace = interp(tsc._wrap_inplace)
            try:
                try:
                    tsc.tsc_parallel(pos, grid, box, **kw)
                except ValueError as e:
                    return dict(rejected=str(e)[:80], canary_ok=True)
            finally:
                tsc._tsc_parallel, tsc.partition_parallel, tsc._wrap_inplace = orig
        else:
            try:
                tsc.tsc_parallel(pos, grid, box, **kw)
            except ValueError as e:
                return dict(rejected=str(e)[:80], canary_ok=True)
    tot = float(N if w is None else w.astype(np.float64).sum())
    if case.get('repaint_shift'):
        # second deposit of the *same array object* onto the same grid after an in-place shift of all three coordinates
        pos += dtype(case['repaint_shift'] * box)
        with warnings.catch_warnings():
            warnings.simplefilter('ignore')
            if MODE == 'S2':
                orig = (tsc._tsc_parallel, tsc.partition_parallel, tsc._wrap_inplace)
                tsc._tsc_parallel, tsc.partition_parallel, tsc._wrap_inplace = interp(tsc._tsc_parallel), interp(tsc.partition_parallel), interp(tsc._wrap_inplace)
            try:
                tsc.tsc_parallel(pos, grid, box, **kw)
            finally:
                if MODE == 'S2':
                    tsc._tsc_parallel, tsc.partition_parallel, tsc._wrap_inplace = orig
        tot *= 2
    # the allocation helper used when the grid is given as an int / shape tuple
    z = (interp(tsc._zeros_parallel) if MODE == 'S2' else tsc._zeros_parallel)(tuple(int(x) for x in shape))
    if z.shape != tuple(shape) or z.any():
        return dict(canary_ok=False, mass=float(z.sum()), expected_mass=0.0, problem='_zeros_parallel')
    return dict(canary_ok=canary_ok(big, sl), mass=float(grid.sum()), expected_mass=tot)


def k_scatter(case):
    from abacusnbody.analysis import tsc

    rng = np.random.default_rng(case['seed'])
    shape, box, N = tuple(case['shape']), case['box'], case['N']
    dtype = np.dtype(case['dtype']).type
    pos = _positions(rng, case['pos'], N, box, dtype)
    big, grid, sl = guarded(shape, np.float64)
    tsc._tsc_scatter(pos, grid, box, weights=None, offset=case.get('offset_cells', 0.0) * box / shape[0])
    return dict(canary_ok=canary_ok(big, sl), mass=float(grid.sum()), expected_mass=float(N))


def k_partition(case):
    from abacusnbody.analysis import tsc

    rng = np.random.default_rng(case['seed'])
    N, box, npart, nthread = case['N'], case['box'], case['npartition'], case['nthread']
    dtype = np.dtype(case['dtype']).type
    pos = _positions(rng, case['pos'], N, box, dtype)
    w = None if not case.get('weights') else np.ones(N, dtype=dtype)
    fn = interp(tsc.partition_parallel) if MODE == 'S2' else tsc.partition_parallel
    fn(pos, npart, box, weights=w, coord=case.get('coord', 0), nthread=nthread, sort=case.get('sort', False))
    return dict(canary_ok=True)


def k_cic(case):
    from abacusnbody.analysis import cic

    rng = np.random.default_rng(case['seed'])
    shape, box, N = tuple(case['shape']), case['box'], case['N']
    dtype = np.dtype(case['dtype']).type
    pos = _positions(rng, case['pos'], N, box, dtype)
    big, grid, sl = guarded(shape, np.float64)
    w = None if not case.get('weights') else rng.uniform(0, 2, N).astype(dtype)
    cic.cic_serial(pos, grid, box, weights=w)
    tot = float(N if w is None else w.astype(np.float64).sum())
    return dict(canary_ok=canary_ok(big, sl), mass=float(grid.sum()), expected_mass=tot)


# ------------------------------------------------------------------ power spectrum


def k_binkmu(case):
    from abacusnbody.analysis import power_spectrum as ps

    n, L, nthread = case['n'], case['L'], case['nthread']
    dk = 2 * np.pi / L
    kedges = np.asarray(case['kedges_kf']) * dk
    muedges = np.linspace(0, 1, case['Nmu'] + 1)
    rng = np.random.default_rng(case['seed'])
    w = rng.random((n, n, n // 2 + 1)).astype(np.float32 if case.get('f32', True) else np.float64)
    fn = interp(ps.bin_kmu) if MODE == 'S2' else ps.bin_kmu
    fn(n, L, kedges, muedges, w, poles=np.array(case.get('poles', []), dtype=np.int64), nthread=nthread)
    if case.get('config_space'):
        wr = rng.random((n, n, n)).astype(np.float32)
        fn(n, L, np.linspace(0, L / 2, 4), np.array([0.0, 1.0]), wr, poles=np.array([0, 2]), fourier=False, nthread=nthread)
    return dict(canary_ok=True)


def k_binkppi(case):
    from abacusnbody.analysis import power_spectrum as ps

    n, L, nthread = case['n'], case['L'], case['nthread']
    dk = 2 * np.pi / L
    kedges = np.asarray(case['kedges_kf']) * dk
    rng = np.random.default_rng(case['seed'])
    w = rng.random((n, n, n // 2 + 1)).astype(np.float32)
    fn = interp(ps.bin_kppi) if MODE == 'S2' else ps.bin_kppi
    fn(n, L, kedges, case['pimax_kf'] * dk, case['Npi'], w, nthread=nthread)
    return dict(canary_ok=True)


def k_interp(case):
    from abacusnbody.analysis import power_spectrum as ps

    npts = case['npts']
    x = np.linspace(case['x0'], case['x1'], npts).astype(np.dtype(case['dtype']).type)
    y = np.arange(npts).astype(x.dtype)
    dt = x.dtype.type
    xs = [x[0], x[-1], np.nextafter(x[0], dt(np.inf)), np.nextafter(x[-1], dt(-np.inf)), np.nextafter(np.nextafter(x[-1], dt(-np.inf)), dt(-np.inf)), (x[0] + x[-1]) / 2, x[0] - 1, x[-1] + 1]
    for k in range(1, npts - 1):
        xs += [x[k], np.nextafter(x[k], dt(np.inf)), np.nextafter(x[k], dt(-np.inf))]
    for xd in xs:
        ps.linear_interp(dt(xd), x, y)
    return dict(canary_ok=True, evaluated=len(xs))


def k_expand(case):
    from abacusnbody.analysis import power_spectrum as ps

    n, L = case['n'], case['L']
    dk = 2 * np.pi / L
    npts = case['npts']
    k_ell = np.linspace(case['k0_kf'] * dk, case['k1_kf'] * dk, npts)
    poles = np.array(case['poles'], dtype=np.int64)
    P_ell = np.random.default_rng(case['seed']).random((len(poles), npts))
    fn = interp(ps.expand_poles_to_3d) if MODE == 'S2' else ps.expand_poles_to_3d
    fn(k_ell, P_ell, n, L, poles)
    return dict(canary_ok=True)


def k_pn(case):
    from abacusnbody.analysis import power_spectrum as ps

    for l in range(0, 11):
        for x in (0.0, 1.0, 0.5, 1e-30):
            ps.P_n(np.float32(x), l)
    for n in range(0, 21):
        ps.factorial(n)
    ps.n_choose_k(20, 10)
    return dict(canary_ok=True)


def k_fields(case):
    from abacusnbody.analysis import power_spectrum as ps

    n, L = case['n'], case['L']
    rng = np.random.default_rng(case['seed'])
    kz = n // 2 + 1
    f = (rng.random((n, n, kz)) + 1j * rng.random((n, n, kz))).astype(np.complex64)
    f2 = f.copy()
    S2 = MODE == 'S2'
    (interp(ps.get_smoothing) if S2 else ps.get_smoothing)(n, L, 2.0)
    (interp(ps.get_delta_mu2) if S2 else ps.get_delta_mu2)(f, n)
    (interp(ps.shift_field_fft) if S2 else ps.shift_field_fft)(f, f2, n, L, 0.5 * L / n)
    real = rng.random((n, n, n)).astype(np.float32)
    nt = case['nthread']
    (interp(ps.normalize_field) if S2 else ps.normalize_field)(real.copy(), tot_weight=float(real.sum()), inplace=True, nthread=nt)
    (interp(ps.normalize_field) if S2 else ps.normalize_field)(real.copy(), nthread=nt)
    (interp(ps._normalize) if S2 else ps._normalize)(f, np.float32(0.5), nthread=nt)
    if not S2:
        ps.get_raw_power(f)
        ps.get_raw_power(f, f2)
    return dict(canary_ok=True)


def k_calcpower(case):
    from abacusnbody.analysis import power_spectrum as ps

    rng = np.random.default_rng(case['seed'])
    n, L, N = case['n'], case['L'], case['N']
    pos = rng.uniform(0, L, (N, 3)).astype(np.float32)
    pos[: min(N, 3)] = [0.0, float(np.nextafter(np.float32(L), np.float32(0))), L / 2]
    with warnings.catch_warnings():
        warnings.simplefilter('ignore')
        ps.calc_power(pos, L, nmesh=n, paste=case['paste'], interlaced=case['interlaced'], compensated=True, nthread=case['nthread'], kbins=case.get('kbins'), mubins=case.get('mubins'), poles=case.get('poles'), k_max=case.get('kmax_kf', None) and case['kmax_kf'] * 2 * np.pi / L)
    return dict(canary_ok=True)


# ------------------------------------------------------------------ HOD


def _hod_inputs(case):
    from . import hodref

    rng = np.random.default_rng(case['seed'])
    halo, part = hodref.gen_tables(rng, case['H'], case['P'], lbox=2000.0, with_env=True)
    if case.get('zero_weights') and len(part['pweights']) > 2:
        part['pweights'][::3] = 0.0  # weight / multiplicity 0: a host that can never be selected
        halo['hmultis'][::4] = 0.0
    tracers = hodref.gen_tracers(rng, case.get('tracers', ('LRG', 'ELG', 'QSO')))
    params = dict(z=0.5, velz2kms=100.0, Lbox=2000.0, origin=(np.array([-990.0, -990.0, -990.0]) if case.get('origin') else None), Mpart=2.1e9, chunk=-1)
    return halo, part, tracers, params


def k_hod(case):
    from abacusnbody.hod import GRAND_HOD as GH

    halo, part, tracers, params = _hod_inputs(case)
    nt = case['Nthread']
    with warnings.catch_warnings():
        warnings.simplefilter('ignore')
        if MODE == 'S2':
            orig = (GH.gen_cent, GH.gen_sats, GH.fast_concatenate)
            GH.gen_cent, GH.gen_sats, GH.fast_concatenate = interp(GH.gen_cent), interp(GH.gen_sats), interp(GH.fast_concatenate)
            try:
                out = GH.gen_gal_cat(halo, part, tracers, params, Nthread=nt, enable_ranks=case.get('ranks', True), rsd=case.get('rsd', True))
            finally:
                GH.gen_cent, GH.gen_sats, GH.fast_concatenate = orig
        else:
            out = GH.gen_gal_cat(halo, part, tracers, params, Nthread=nt, enable_ranks=case.get('ranks', True), rsd=case.get('rsd', True))
    return dict(canary_ok=True, galaxies=int(sum(len(v['x']) for v in out.values())))


def k_concat(case):
    from abacusnbody.hod import GRAND_HOD as GH

    a = np.arange(case['N1'], dtype=np.float64)
    b = np.arange(case['N2'], dtype=np.float64)
    fn = interp(GH.fast_concatenate) if MODE == 'S2' else GH.fast_concatenate
    out = fn(a, b, case['Nthread'])
    return dict(canary_ok=bool(len(out) == case['N1'] + case['N2']))


def k_sphere(case):
    from abacusnbody.hod import GRAND_HOD as GH

    fn = interp(GH.getPointsOnSphere) if MODE == 'S2' else GH.getPointsOnSphere
    ur = fn(case['nPoints'], case['Nthread'])
    if case.get('seeded'):
        fn(case['nPoints'], case['Nthread'], np.arange(case['Nthread'], dtype=np.int64) + 5)
    return dict(canary_ok=bool(ur.shape == (case['nPoints'], 3)))


def k_nfw(case):
    from abacusnbody.hod import GRAND_HOD as GH

    halo, part, tracers, params = _hod_inputs(case)
    rng = np.random.default_rng(case['seed'] + 1)
    NFW_draw = rng.uniform(0.01, 1.9, 200000)
    if case.get('no_sats'):
        for t in tracers.values():
            t['logM1'] = 30.0
            t['logM1_EE'] = 30.0
            t['logM1_EL'] = 30.0
    nt = case['Nthread']
    with warnings.catch_warnings():
        warnings.simplefilter('ignore')
        if MODE == 'S2':
            orig = (GH.gen_cent, GH.gen_sats_nfw, GH.fast_concatenate)
            isph = interp(GH.getPointsOnSphere)
            infw = interp(GH.compute_fast_NFW)
            GH.gen_cent, GH.fast_concatenate = interp(GH.gen_cent), interp(GH.fast_concatenate)
            GH.gen_sats_nfw = interp(GH.gen_sats_nfw, getPointsOnSphere=isph, compute_fast_NFW=infw)
            try:
                out = GH.gen_gal_cat(halo, part, tracers, params, Nthread=nt, rsd=True, nfw=True, NFW_draw=NFW_draw)
            finally:
                GH.gen_cent, GH.gen_sats_nfw, GH.fast_concatenate = orig
        else:
            out = GH.gen_gal_cat(halo, part, tracers, params, Nthread=nt, rsd=True, nfw=True, NFW_draw=NFW_draw)
    return dict(canary_ok=True, galaxies=int(sum(len(v['x']) for v in out.values())))


def k_searchsorted(case):
    import numba

    from abacusnbody.hod import abacus_hod as AH

    a = np.arange(case['N'], dtype=np.int64) * 3
    v = (np.arange(case['Q'], dtype=np.int64) * 3) % max(3 * case['N'], 1)
    numba.set_num_threads(case['Nthread'])
    fn = interp(AH._searchsorted_parallel) if MODE == 'S2' else AH._searchsorted_parallel
    fn(a, v)
    return dict(canary_ok=True)


KERNELS = {k[2:]: v for k, v in list(globals().items()) if k.startswith('k_')}


def run_case(case):
    if case['kernel'] == 'selftest':
        return selftest(case)
    return KERNELS[case['kernel']](case)
