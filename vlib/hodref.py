"""Generated HOD inputs and a plain numpy/float64 reference model of the HOD threshold rule
(gen_cent / gen_sats / gen_gals of abacusnbody.hod.GRAND_HOD), written from the documented rule:
slices of [0,1] stacked LRG, ELG, QSO; width = package mean-occupation function (called through
py_func) x incompleteness x multiplicity/weight x rank decorator; decision by the stored random."""

import numpy as np

TR = ('LRG', 'ELG', 'QSO')


def gen_tables(rng, H, P, lbox=2000.0, with_env=True, dtype=np.float64, mass_step=None):
    hid = np.sort(rng.choice(np.arange(10, 10 + 20 * max(H, 1)), H, replace=False)).astype(np.int64) if H else np.zeros(0, dtype=np.int64)
    halo = dict(
        hpos=rng.uniform(-lbox / 2, lbox / 2, (H, 3)).astype(dtype),
        hvel=rng.normal(0, 300, (H, 3)).astype(dtype),
        hmass=(10 ** rng.uniform(11.3, 14.8, H)).astype(dtype),
        hid=hid,
        hmultis=rng.choice(np.array([1.0, 1.0, 1.0, 2.0, 0.5]), H).astype(dtype),
        hrandoms=rng.random(H).astype(dtype),
        hveldev=rng.normal(0, 100, (H, 3)).astype(dtype),
        hsigma3d=rng.uniform(100, 900, H).astype(dtype),
        hc=rng.uniform(2, 12, H).astype(dtype),
        hrvir=rng.uniform(0.1, 2.0, H).astype(dtype),
    )
    if with_env:
        halo['hdeltac'] = rng.uniform(-0.5, 0.5, H).astype(dtype)
        halo['hfenv'] = rng.uniform(-0.5, 0.5, H).astype(dtype)
        halo['hshear'] = rng.uniform(-0.5, 0.5, H).astype(dtype)
    rq = rng.random() if H else 1.0
    if rq < 0.5:
        # halo masses are particle counts x particle mass in real catalogues: many hosts share a mass exactly (a quarter of the
        # tables has only a handful of distinct masses, so that neighbouring hosts of equal mass and different environment abound)
        step = 0.05 if rq < 0.25 else 0.5
    if mass_step:
        rq, step = 0.0, mass_step
    if rq < 0.5:
        halo['hmass'] = (10 ** (np.round(np.log10(halo['hmass']) / step) * step)).astype(dtype)
    pinds = np.sort(rng.integers(0, H, P)) if H else np.zeros(0, dtype=np.int64)
    part = dict(
        ppos=(halo['hpos'][pinds] + rng.normal(0, 0.5, (P, 3))).astype(dtype),
        pvel=(halo['hvel'][pinds] + rng.normal(0, 400, (P, 3))).astype(dtype),
        phvel=halo['hvel'][pinds].copy(),
        phmass=halo['hmass'][pinds].copy(),
        phid=halo['hid'][pinds].copy(),
        pweights=rng.uniform(0.001, 0.3, P).astype(dtype),
        prandoms=rng.random(P).astype(dtype),
        pranks=rng.uniform(-1, 1, P).astype(dtype),
        pranksv=rng.uniform(-1, 1, P).astype(dtype),
        pranksp=rng.uniform(-1, 1, P).astype(dtype),
        pranksr=rng.uniform(-1, 1, P).astype(dtype),
        pranksc=rng.uniform(-1, 1, P).astype(dtype),
        pinds=pinds.astype(np.int64),
    )
    if with_env:
        part['pdeltac'] = halo['hdeltac'][pinds].copy()
        part['pfenv'] = halo['hfenv'][pinds].copy()
        part['pshear'] = halo['hshear'][pinds].copy()
    return halo, part


def gen_tracers(rng, which, fancy=True):
    if fancy == 'sparse':
        # each optional term independently switched off (exactly 0.0) or on: e.g. central-only or satellite-only assembly bias
        f = lambda lo, hi: (float(rng.uniform(lo, hi)) if rng.random() < 0.5 else 0.0)  # noqa: E731
    else:
        f = (lambda lo, hi: float(rng.uniform(lo, hi))) if fancy else (lambda lo, hi: 0.0)
    T = {}
    if 'LRG' in which:
        T['LRG'] = dict(logM_cut=float(rng.uniform(12.6, 13.4)), logM1=float(rng.uniform(13.6, 14.4)), sigma=float(rng.uniform(0.1, 0.9)), alpha=float(rng.uniform(0.8, 1.4)), kappa=float(rng.uniform(0.1, 1.0)),
                        alpha_c=f(0, 0.5), alpha_s=float(rng.uniform(0.6, 1.4)), s=f(-0.5, 0.5), s_v=f(-0.5, 0.5), s_p=f(-0.3, 0.3), s_r=f(-0.3, 0.3),
                        Acent=f(-0.5, 0.5), Asat=f(-0.5, 0.5), Bcent=f(-0.3, 0.3), Bsat=f(-0.3, 0.3), ic=float(rng.choice([1.0, 0.9, 0.5])))
    if 'ELG' in which:
        T['ELG'] = dict(p_max=float(rng.uniform(0.1, 0.6)), Q=100.0, logM_cut=float(rng.uniform(11.6, 12.2)), kappa=float(rng.uniform(0.5, 1.5)), sigma=float(rng.uniform(0.3, 1.0)), logM1=float(rng.uniform(13.0, 14.0)),
                        alpha=float(rng.uniform(0.5, 1.2)), gamma=float(rng.uniform(1.0, 5.0)), A_s=float(rng.uniform(0.5, 1.5)),
                        alpha_c=f(0, 0.5), alpha_s=float(rng.uniform(0.6, 1.4)), s=f(-0.5, 0.5), s_v=f(-0.5, 0.5), s_p=f(-0.3, 0.3), s_r=f(-0.3, 0.3),
                        Acent=f(-0.5, 0.5), Asat=f(-0.5, 0.5), Bcent=f(-0.3, 0.3), Bsat=f(-0.3, 0.3), Ccent=f(-0.3, 0.3), Csat=f(-0.3, 0.3), ic=float(rng.choice([1.0, 0.8])))
        if fancy and rng.random() < 0.7:
            T['ELG'].update(logM1_EE=float(rng.uniform(12.8, 14.0)), alpha_EE=float(rng.uniform(0.5, 1.3)), logM1_EL=float(rng.uniform(12.8, 14.0)), alpha_EL=float(rng.uniform(0.5, 1.3)))
    if 'QSO' in which:
        T['QSO'] = dict(logM_cut=float(rng.uniform(12.0, 12.8)), kappa=float(rng.uniform(0.5, 1.5)), sigma=float(rng.uniform(0.3, 1.0)), logM1=float(rng.uniform(14.5, 15.5)), alpha=float(rng.uniform(0.6, 1.2)),
                        alpha_c=f(0, 0.5), alpha_s=float(rng.uniform(0.6, 1.4)), s=f(-0.5, 0.5), s_v=f(-0.5, 0.5), s_p=f(-0.3, 0.3), s_r=f(-0.3, 0.3),
                        Acent=f(-0.5, 0.5), Asat=f(-0.5, 0.5), Bcent=f(-0.3, 0.3), Bsat=f(-0.3, 0.3), ic=float(rng.choice([1.0, 0.7])))
    if fancy:
        # redshift-evolving thresholds (gen_gals: logM += logM_pr * (a(z) - a(z_pivot)))
        for t in T.values():
            if rng.random() < 0.5:
                t.update(z_pivot=float(rng.choice([0.8, 0.2, 0.5])), logM_cut_pr=float(rng.uniform(-1, 1)), logM1_pr=float(rng.uniform(-1, 1)))
    if fancy == 'sparse':
        # a term that is switched off is simply left out of the dict (documented defaults: 0 for the bias terms, 1 for ic)
        for t in T.values():
            for key, default in (('Acent', 0.0), ('Asat', 0.0), ('Bcent', 0.0), ('Bsat', 0.0), ('Ccent', 0.0), ('Csat', 0.0), ('ic', 1.0)):
                if t.get(key) == default:
                    t.pop(key)
    return T


def evolved(tracers, z):
    """tracer dicts with the documented z-evolution applied (what gen_gals hands to the kernels)."""
    out = {}
    for t, p in tracers.items():
        q = dict(p)
        da = 1.0 / (1 + z) - 1.0 / (1 + p.get('z_pivot', z))
        q['logM_cut'] = p['logM_cut'] + p.get('logM_cut_pr', 0.0) * da
        q['logM1'] = p['logM1'] + p.get('logM1_pr', 0.0) * da
        if t == 'ELG':
            # conformity defaults refer to the evolved logM1 (set after the shift in gen_gals)
            q.setdefault('logM1_EE', q['logM1'])
            q.setdefault('logM1_EL', q['logM1'])
        out[t] = q
    return out


def _vec(pyf):
    return np.vectorize(pyf, otypes=[np.float64])


class Reference:
    def __init__(self, GH):
        self.ncenL = _vec(GH.n_cen_LRG.py_func)
        # N_cen_ELG_v1.py_func calls phi_fun/Phi_fun dispatchers (fine from Python)
        self.ncenE = _vec(GH.N_cen_ELG_v1.py_func)
        self.ncenQ = _vec(GH.N_cen_QSO.py_func)
        self.nsatL = _vec(GH.n_sat_LRG_modified.py_func)
        self.nsatE = _vec(GH.N_sat_elg.py_func)
        self.nsatG = _vec(GH.N_sat_generic.py_func)

    def cent_markers(self, halo, tracers):
        H = len(halo['hmass'])
        m = halo['hmass'].astype(np.float64)
        dc = halo.get('hdeltac', np.zeros(H)).astype(np.float64)
        fe = halo.get('hfenv', np.zeros(H)).astype(np.float64)
        sh = halo.get('hshear', np.zeros(H)).astype(np.float64)
        mult = halo['hmultis'].astype(np.float64)
        edges = np.zeros((4, H))
        run = np.zeros(H)
        for k, t in enumerate(TR):
            if t in tracers and H:
                p = tracers[t]
                if t == 'LRG':
                    lc = p['logM_cut'] + p.get('Acent', 0.0) * dc + p.get('Bcent', 0.0) * fe
                    w = self.ncenL(m, lc, p['sigma'])
                elif t == 'ELG':
                    lc = p['logM_cut'] + p.get('Acent', 0.0) * dc + p.get('Bcent', 0.0) * fe + p.get('Ccent', 0.0) * sh
                    w = self.ncenE(m, p['p_max'], p['Q'], lc, p['sigma'], p['gamma'])
                else:
                    lc = p['logM_cut'] + p.get('Acent', 0.0) * dc + p.get('Bcent', 0.0) * fe
                    w = self.ncenQ(m, lc, p['sigma'])
                run = run + w * p.get('ic', 1.0) * mult
            edges[k + 1] = run
        return edges  # edges[k] .. edges[k+1] is tracer k's slice

    def sat_markers(self, part, tracers, enable_ranks, keep_cent_p):
        P = len(part['phmass'])
        m = part['phmass'].astype(np.float64)
        dc = part.get('pdeltac', np.zeros(P)).astype(np.float64)
        fe = part.get('pfenv', np.zeros(P)).astype(np.float64)
        sh = part.get('pshear', np.zeros(P)).astype(np.float64)
        w8 = part['pweights'].astype(np.float64)
        edges = np.zeros((4, P))
        run = np.zeros(P)
        for k, t in enumerate(TR):
            if t in tracers and P:
                p = tracers[t]
                As, Bs, Ac, Bc = p.get('Asat', 0.0), p.get('Bsat', 0.0), p.get('Acent', 0.0), p.get('Bcent', 0.0)
                if t == 'LRG':
                    M1 = 10 ** (p['logM1'] + As * dc + Bs * fe)
                    lc = p['logM_cut'] + Ac * dc + Bc * fe
                    base = self.nsatL(m, lc, 10**lc, M1, p['sigma'], p['alpha'], p['kappa'])
                elif t == 'ELG':
                    Cs, Cc = p.get('Csat', 0.0), p.get('Ccent', 0.0)
                    M1 = 10 ** (p['logM1'] + As * dc + Bs * fe + Cs * sh)
                    lc = p['logM_cut'] + Ac * dc + Bc * fe + Cc * sh
                    base = self.nsatE(m, 10**lc, p['kappa'], M1, p['alpha'], p['A_s'])
                    # conformity: satellites of LRG-hosting / ELG-hosting centrals
                    M1L = 10 ** (p.get('logM1_EL', p['logM1']) + As * dc + Bs * fe)
                    bL = self.nsatE(m, 10**lc, p['kappa'], M1L, p.get('alpha_EL', p['alpha']), p['A_s'])
                    M1E = 10 ** (p.get('logM1_EE', p['logM1']) + As * dc + Bs * fe)
                    bE = self.nsatE(m, 10**lc, p['kappa'], M1E, p.get('alpha_EE', p['alpha']), p['A_s'])
                    base = np.where(keep_cent_p == 1, bL, np.where(keep_cent_p == 2, bE, base))
                else:
                    M1 = 10 ** (p['logM1'] + As * dc + Bs * fe)
                    lc = p['logM_cut'] + Ac * dc + Bc * fe
                    base = self.nsatG(m, 10**lc, p['kappa'], M1, p['alpha'])
                base = base * w8 * p.get('ic', 1.0)
                if enable_ranks:
                    base = base * (1 + p['s'] * part['pranks'] + p['s_v'] * part['pranksv'] + p['s_p'] * part['pranksp'] + p['s_r'] * part['pranksr'])
                run = run + base
            edges[k + 1] = run
        return edges


def decide(randoms, edges, rtol=1e-11):
    """keep code 0..3 per host and an ambiguity flag (random within rtol of a slice edge)."""
    r = randoms.astype(np.float64)
    keep = np.zeros(len(r), dtype=np.int8)
    assigned = np.zeros(len(r), dtype=bool)
    for k in range(3):
        hit = (r <= edges[k + 1]) & ~assigned
        keep[hit] = k + 1
        assigned |= hit
    amb = np.zeros(len(r), dtype=bool)
    for k in range(1, 4):
        amb |= np.abs(r - edges[k]) <= rtol * np.maximum(np.abs(edges[k]), 1e-300) + 1e-300
    return keep, amb


def wrap(x, L):
    return np.where(x >= L / 2, x - L, np.where(x < -L / 2, x + L, x))


def expected_rows(pos, vbase, vdev_or_rel, alpha, mass, ids, sel, rsd, inv_velz2kms, lbox, origin, central):
    """Expected galaxy rows (dict of arrays) for the selected hosts, in input order."""
    p = pos[sel].astype(np.float64)
    if central:
        v = vbase[sel].astype(np.float64) + alpha * vdev_or_rel[sel].astype(np.float64)
    else:
        hv = vbase[sel].astype(np.float64)
        v = hv + alpha * (vdev_or_rel[sel].astype(np.float64) - hv)
    x, y, z = p[:, 0].copy(), p[:, 1].copy(), p[:, 2].copy()
    if rsd and origin is not None:
        n = p - np.asarray(origin, dtype=np.float64)
        n /= np.sqrt((n * n).sum(axis=1))[:, None]
        proj = inv_velz2kms * (v * n).sum(axis=1)
        x, y, z = x + proj * n[:, 0], y + proj * n[:, 1], z + proj * n[:, 2]
    elif rsd:
        z = wrap(z + v[:, 2] * inv_velz2kms, lbox)
    return dict(x=x, y=y, z=z, vx=v[:, 0], vy=v[:, 1], vz=v[:, 2], mass=mass[sel].astype(np.float64), id=ids[sel].astype(np.int64))


def reference_catalog(ref, halo, part, tracers, params, enable_ranks, rsd):
    """Expected catalogue per tracer + ambiguity masks."""
    inv = 1.0 / params['velz2kms']
    lbox, origin = params['Lbox'], params['origin']
    tracers = evolved(tracers, params['z'])
    ce = ref.cent_markers(halo, tracers)
    keepc, ambc = decide(halo['hrandoms'], ce)
    kcp = keepc[part['pinds']] if len(part['pinds']) else np.zeros(0, dtype=np.int8)
    se = ref.sat_markers(part, tracers, enable_ranks, kcp)
    keeps, ambs = decide(part['prandoms'], se)
    # a particle whose host central decision is ambiguous has an ambiguous conformity branch
    if len(part['pinds']) and 'ELG' in tracers:
        ambs = ambs | ambc[part['pinds']]
    out = {}
    for k, t in enumerate(TR):
        if t not in tracers:
            continue
        p = tracers[t]
        selc = keepc == k + 1
        sels = keeps == k + 1
        c = expected_rows(halo['hpos'], halo['hvel'], halo['hveldev'], p['alpha_c'], halo['hmass'], halo['hid'], selc, rsd, inv, lbox, origin, True)
        s = expected_rows(part['ppos'], part['phvel'], part['pvel'], p['alpha_s'], part['phmass'], part['phid'], sels, rsd, inv, lbox, origin, False)
        out[t] = {kk: np.concatenate([c[kk], s[kk]]) for kk in c}
        out[t]['Ncent'] = int(selc.sum())
    return out, dict(keepc=keepc, ambc=ambc, keeps=keeps, ambs=ambs, cent_edges=ce, sat_edges=se)
